"""C04 - PIT cost equals the real cost of the network that export would produce.

Same configuration lattice as C01; in every configuration the discrete cost of every built-in metric
(dictionary specification) is compared with the metric recomputed from scratch on the exported network
(independent fx walk + ShapeProp; for `params` literally sum(p.numel()) of exported conv/linear layers),
with full_cost off and on.  In the initial configuration continuous == discrete == cost of the original
model.
"""
import math

import torch
import torch.nn as nn

from .. import pitdrv as D
from .. import tol
from ..grammar import pit as G

PID = 'C04'
RULE = ('programs: kernel family K (k in 1..9, bias on/off), G_pit base programs up to the depth bound (incl. layers invoked twice, '
        'concat, flatten, depthwise, a fixed (excluded) first layer for full_cost); cost = dictionary of '
        'params / params_no_bias / ops / ops_no_bias (+ gap8_latency for 2D) and each spec alone; configurations as in C01; '
        'in every configuration get_cost(name) with discrete_cost=True is compared with the metric recomputed on export(), '
        'full_cost off and on; non-trivial = (program, configuration, metric) with at least one pruned element; the lattice of a program is walked on '
        'one instance under one of three usage protocols rotating over the programs (plain / train_net_only() first / train switches off first)')
ASSUMPTIONS = ['gap8 reference = the library formula evaluated on the exported layer\'s own hyper-parameters (kind generic/depthwise taken from the original layer)',
               'binarisation abstraction A1', 'programs with D4/D5/D24 structures are checked under C09']


def bounds(tier):
    return {'quick': {'G_depth': 2, 'mask_deviation_bound': 2, 'complete_lattice_cap': 48, 'K': 'k 1..9 x bias x bn'},
            'thorough': {'G_depth': 3, 'mask_deviation_bound': 2, 'complete_lattice_cap': 1024, 'K': 'k 1..9 x d x bias x bn'}}[tier]


def cases(tier, seed):
    out = []
    for p in G.gen_K(9):
        s = p['stages'][1]
        if s['s'] == 1 and (tier == 'thorough' or s['d'] == 1):
            out.append({'prog': p, 'fold_bn': False})
            if s['bn']:
                out.append({'prog': p, 'fold_bn': True})
    progs = list(G.gen_base(2 if tier == 'quick' else 3))
    for p in G.gen_base(1):
        progs += G.option_deviations(p)
    # a fixed (excluded from the search) first layer, so that full_cost on/off differ
    for p in G.gen_base(1 if tier == 'quick' else 2):
        q = G._copy(p)
        q['stages'].insert(0, {'op': 'conv', 'exclude': True, 'cout': 3})
        q['fixed_first'] = True
        progs.append(q)
    progs += G.gen_special()
    for p in progs:
        fl = G.structure_flags(p) - ({'excluded-layer'} if p.get('fixed_first') else set())
        if fl:
            continue
        out.append({'prog': p, 'fold_bn': False})
        if G.has_bn(p) and tier == 'thorough':
            out.append({'prog': p, 'fold_bn': True})
    for c in out:
        c['tier'] = tier
    return out


def _gap8_ref(exp, x, kinds, only_names):
    """library gap8 formula on the exported layers' own hyper-parameters"""
    import torch.fx as fx
    from torch.fx.passes.shape_prop import ShapeProp
    from plinio.cost.gap8_latency import _gap8_latency_conv2d_generic, _gap8_latency_conv2d_dw, _gap8_latency_linear
    ShapeProp(exp).propagate(x)
    mods = dict(exp.named_modules())
    tot, seen = 0.0, set()
    for n in exp.graph.nodes:
        if n.op != 'call_module' or str(n.target) in seen:
            continue
        name = str(n.target)
        m = mods[name]
        if only_names is not None and name not in only_names:
            continue
        if isinstance(m, nn.Conv2d):
            spec = {'in_channels': torch.tensor(float(m.in_channels)), 'out_channels': torch.tensor(float(m.out_channels)),
                    'kernel_size': m.kernel_size, 'groups': m.groups, 'output_shape': n.meta['tensor_meta'].shape}
            fn = _gap8_latency_conv2d_dw if kinds.get(name) == 'dw' else _gap8_latency_conv2d_generic
            tot += float(fn(spec))
            seen.add(name)
        elif isinstance(m, nn.Linear):
            spec = {'in_features': torch.tensor(float(m.in_features)), 'out_features': torch.tensor(float(m.out_features))}
            tot += float(_gap8_latency_linear(spec))
            seen.add(name)
    return tot


def _specs(dim):
    from plinio.cost import params, params_no_bias, ops, ops_no_bias, gap8_latency
    d = {'params': params, 'params_nb': params_no_bias, 'ops': ops, 'ops_nb': ops_no_bias}
    if dim == 2:
        d['gap8'] = gap8_latency
    return d


def run_case(case, seed):
    prog, fold = case['prog'], case['fold_bn']
    tier = case.get('tier', 'quick')
    b = bounds(tier)
    res = {'states': 0, 'transitions': 0, 'evals': 0, 'nontrivial': [], 'outcomes': set(), 'violations': []}
    base_case = {'prog': prog, 'fold_bn': fold, 'tier': tier}
    specs = _specs(prog['dim'])
    ctx = D.make_pit(prog, seed, fold_bn=fold, cost=dict(specs), discrete_cost=True)
    ssig = _shape_sig(prog, fold)
    if 'error' in ctx:
        res.update(states=1, evals=1, outcomes=['conversion-raises'])
        res['violations'].append({'kind': 'conversion-raises', 'sig': 'conversion-raises/' + ssig,
                                  'msg': f'PIT() raised {type(ctx["error"]).__name__}: {ctx["error"]}', 'case': base_case})
        return res
    pit, x, model = ctx['pit'], ctx['x'], ctx['model']
    # usage protocol before the lattice is walked on this ONE instance (the cost is a function of the current mask values, whatever their
    # requires_grad): plain / train_net_only() first (architecture frozen, weights fine-tuned) / the train switches turned off first
    import hashlib
    import json
    proto = ('plain', 'train_net_only-first', 'train-switches-off-first')[int(hashlib.sha1(json.dumps([prog, fold], sort_keys=True).encode()).hexdigest(), 16) % 3]
    if proto == 'train_net_only-first':
        pit.train_net_only()
    elif proto == 'train-switches-off-first':
        pit.train_features = False
        pit.train_rf = False
        pit.train_dilation = False
    if proto != 'plain':
        ssig = ssig + '/' + proto
    pit.eval()
    searchable = {n for n, _ in D.pit_layers(pit)}
    kinds = {}
    for n, l in D.pit_layers(pit):
        if isinstance(l, nn.Conv2d):
            kinds[n] = 'dw' if (l.groups == l.in_channels == l.out_channels) else 'generic'
    for n, l in model.named_modules():
        if isinstance(l, nn.Conv2d) and n not in kinds:
            kinds[n] = 'dw' if (l.groups == l.in_channels == l.out_channels) else 'generic'
    els = D.elements(pit, prog)

    def add(kind, sig, msg, cfgdesc, extra=None):
        res['outcomes'].add(kind)
        res['violations'].append({'kind': kind, 'sig': sig, 'msg': msg, 'case': dict(base_case, cfg=cfgdesc, **(extra or {}))})

    # ---- initial state: continuous == discrete == original model -------------------------------------------
    # (with fold_bn the searched network is the BN-folded one - a bias-less conv acquires a bias - so the comparison
    # with the un-folded original does not apply; the export comparison below covers the initial state there)
    if case.get('cfg') in (None, {}) and not fold:
        D.apply_config(els, {}, rep=0)
        for full in (False, True):
            pit.full_cost = full
            try:
                ref0 = D.ref_costs(model, x, None if full else searchable)
                if prog['dim'] == 2:
                    import torch.fx as fx
                    ref0['gap8'] = _gap8_ref(D.traced(model), x, kinds, None if full else searchable)
            except Exception as e:
                add('harness-error', 'harness-error', f'reference cost on original model failed: {e}', {})
                break
            for disc in (False, True):
                pit.discrete_cost = disc
                for name in specs:
                    res['evals'] += 1
                    try:
                        got = float(pit.get_cost(name))
                    except Exception as e:
                        fixed_only = full and prog.get('fixed_first')
                        add('cost-raises', f'cost-raises/{name}/full={int(full)}/fixed-layer={int(bool(fixed_only))}',
                            f'initial get_cost({name}) full_cost={full} discrete={disc}: {type(e).__name__}: {str(e)[:200]}', {})
                        continue
                    ok, why = tol.cost_close(got, ref0[name])
                    if not ok:
                        add('initial-cost-differs', f'initial-cost-differs/{name}/disc={int(disc)}/full={int(full)}/' + ssig,
                            f'all masks open, discrete_cost={disc}, full_cost={full}: get_cost({name})={got} but the original model costs {ref0[name]}', {})
                    else:
                        res['outcomes'].add('initial-equal')
        pit.discrete_cost = True
    # ---- every configuration: discrete cost == recomputed on export() --------------------------------------
    if case.get('cfg') is not None:
        cfgs, complete = [D.cfg_from_desc(els, case['cfg'])], False
    else:
        cfgs, complete = D.enum_configs(els, b['mask_deviation_bound'], b['complete_lattice_cap'])
    for cfg in cfgs:
        D.apply_config(els, cfg, rep=0, via_data=res['states'] % 2 == 1)
        res['states'] += 1
        res['transitions'] += len(cfg)
        desc = D.describe(els, cfg)
        kk = ''.join(sorted({els[i]['kind'][0] for i in cfg}))
        try:
            with torch.no_grad():
                pit(x)
                exp = pit.export()
        except Exception as e:
            add('export-raises', f'export-raises/{kk}/' + ssig, f'cfg={desc}: {type(e).__name__}: {str(e)[:200]}', desc)
            continue
        for full in (False, True):
            pit.full_cost = full
            try:
                ref = D.ref_costs(exp, x, None if full else searchable)
                if prog['dim'] == 2:
                    ref['gap8'] = _gap8_ref(exp, x, kinds, None if full else searchable)
            except Exception as e:
                add('exported-net-unusable', f'exported-net-unusable/{kk}/' + ssig, f'cfg={desc}: {type(e).__name__}: {str(e)[:200]}', desc)
                break
            for name in specs:
                res['evals'] += 1
                try:
                    with torch.no_grad():
                        got = float(pit.get_cost(name))
                except Exception as e:
                    fixed_only = full and prog.get('fixed_first')
                    add('cost-raises', f'cost-raises/{name}/full={int(full)}/fixed-layer={int(bool(fixed_only))}',
                        f'cfg={desc} get_cost({name}) full_cost={full}: {type(e).__name__}: {str(e)[:200]}', desc)
                    continue
                ok, why = tol.cost_close(got, ref[name])
                if not ok:
                    add('cost-differs', f'cost-differs/{name}/{kk}/full={int(full)}/' + ssig,
                        f'cfg={desc} full_cost={full}: get_cost({name})={got} but the exported network costs {ref[name]}', desc)
                else:
                    res['outcomes'].add('equal')
                if cfg:
                    res['nontrivial'].append(_key(prog, fold, desc, name, full))
        # re-assigning the (same) cost specification in THIS state rebuilds the per-layer cost-function map: values must not move
        pit.full_cost = False
        try:
            with torch.no_grad():
                before = {name: float(pit.get_cost(name)) for name in specs}
                pit.cost_specification = dict(specs)
                after = {name: float(pit.get_cost(name)) for name in specs}
            for name in specs:
                res['evals'] += 1
                if not tol.cost_close(before[name], after[name])[0]:
                    add('cost-changes-when-spec-reassigned', f'cost-changes-when-spec-reassigned/{name}/{kk}',
                        f'cfg={desc}: get_cost({name}) = {before[name]} with the map built at construction, {after[name]} after cost_specification was assigned again', desc)
        except Exception as e:
            add('cost-raises', 'cost-raises/spec-reassigned', f'cfg={desc}: {type(e).__name__}: {str(e)[:200]}', desc)
    # ---- single (non-dictionary) specification agrees with the dictionary entry ----------------------------
    if case.get('cfg') is None and cfgs:
        pit.full_cost = False
        for name, sp in specs.items():
            try:
                with torch.no_grad():
                    a = float(pit.get_cost(name))
                    pit.cost_specification = sp
                    bsingle = float(pit.cost)
                    pit.cost_specification = dict(specs)
                res['evals'] += 1
                ok, why = tol.cost_close(a, bsingle)
                if not ok:
                    add('single-vs-dict', f'single-vs-dict/{name}', f'cost with single spec {name} = {bsingle}, as dict entry = {a}', D.describe(els, cfgs[-1]))
            except Exception as e:
                add('cost-raises', f'cost-raises/single/{name}', f'{type(e).__name__}: {str(e)[:200]}', D.describe(els, cfgs[-1]))
    res['outcomes'] = sorted(res['outcomes'])
    res['sample'] = {'prog': prog, 'fold_bn': fold, 'protocol': proto, 'metrics': sorted(specs), 'n_configs': len(cfgs), 'complete_lattice': complete,
                     'last_cfg': D.describe(els, cfgs[-1]) if cfgs else None}
    return res


def _traced(model):
    import torch.fx as fx
    from plinio.methods.pit.graph import PITTracer
    tr = PITTracer()
    g = tr.trace(model)
    return fx.GraphModule(tr.root, g)


def _key(prog, fold, desc, name, full):
    import hashlib
    import json
    return hashlib.sha1(json.dumps([prog, fold, desc, name, full], sort_keys=True).encode()).hexdigest()[:16]


def _shape_sig(prog, fold):
    ops = '+'.join(sorted({s['op'] + ('-dw' if s.get('dw') else '') + ('-x' if s.get('exclude') else '') for s in prog['stages']}))
    return f"{prog['dim']}d/{ops}/{prog['head']['kind']}/fold={int(fold)}"
