"""C16 - built-in cost models are finite, non-negative and monotone in layer size.

Configuration-lattice exploration with *edge* invariants, executed on the real cost functions.

A state is an integer layer description (cin, cout | c for depthwise, kernel, output size, bit-widths,
+ the non-size attributes bias / theta / accelerator that are only used as context).  A transition is
one step on one axis (cin+1, cout+1, next legal kernel, ox+1, oy+1, next legal bit-width).
  state invariant : the function returns (no exception) a finite value >= 0, > 0 when no bit-width is 0
  edge invariant  : the value does not decrease along the step (bit axes only for the models in which
                    the bit-width scales the work: params_bit, ops_bit, mpic_*, ne16)
By transitivity the edges cover every ordered pair of a swept line / plane.

Every registered cost *function* is evaluated on its own domain and is taken from the pattern list of
the specification directly (`spec.data[layer_type]` = [(constraint, fn), ...]): the unconstrained function
with groups = 1, the depthwise function with cin = cout = groups.  (A `CostSpec[...]` lookup would switch
function at cin = cout = groups = 1 and fake a non-monotonicity.)

Further case kinds (all exhaustive over their grid):
  frac     relaxed channel counts c + {1/4, 1/2, 3/4} as tensors with requires_grad: finite, between the
           neighbouring integer values (monotone chain), finite gradient
  ste      the autograd rounding helpers defined in the cost files: exact integer ceil / floor / modulo
           (/ threshold gate) on integer inputs, finite non-zero gradient passed through
  dwgen    params / params_no_bias / params_bit / ops / ops_no_bias / ops_bit: depthwise(c) ==
           c * generic(cin = 1, cout = 1)   (generic formula evaluated per group)
  reject   MPIC / NE16 / DIANA raise on the precisions / kernels / groups their code declares
           unsupported, and do not raise on the supported ones
  catalogue every CostSpec exported by plinio.cost, every pattern it registers and every autograd helper
           of the hardware models is known to this check (nothing is skipped silently)

A violation carries case = {'kind': ..., 'only': item}: run_case on it re-executes just that input.
Nothing depends on the seed.
"""
import hashlib
import itertools
import math

import torch
import torch.nn as nn

PID = 'C16'
RULE = ('for every CostSpec exported by plinio.cost and every (constraint, function) pattern it registers, the function '
        'is called directly on its own domain (generic: groups=1; depthwise: cin=cout=groups) in two argument '
        'representations (plain numbers / 0-d tensors).  quick: a complete line along every size or bit axis (cin, cout | c '
        'in 1..130, every legal kernel, ox, oy in 1..33, bits {0,2,4,8}) for every combination of the other axes on fixed '
        'tile-boundary sets (channels {1,2,4,16,17,65,128}, outputs {1,16}, w {2,8}, a 8, bias on/off, theta 1, both DIANA '
        'accelerators; a bit axis is swept for every value of the other bit axis).  thorough: the full cin x cout plane '
        '1..130^2 for every kernel, (ox,oy) in {1,9,16}^2, the same bit/bias settings, theta {1,.5} + the lines of all other axes '
        'with channels on the 20-value boundary set {1,2,3,4,7,8,9,15,..,129,130} (depthwise: outputs on the 13-value set).  '
        'Every evaluated state is checked (no exception, finite, >=0, >0 at non-zero bits) and every +1 edge of a swept axis '
        'is checked (no decrease, rel. tol 1e-6).  + fractional channel counts c+{1/4,1/2,3/4} on 1..130 (between neighbours, '
        'finite gradient), autograd rounding helpers on numerators 0..300 x divisors 1..40,64,128,256,512 (exact value, '
        'gradient passed), depthwise == generic per group for c in 1..130, rejection grids (bits 0..9,16,32; kernels 1..7^2; '
        'groups).  non-trivial = an edge chain (function, representation, axis, fixed point) along which the function takes '
        'a strictly positive value / a helper-divisor, equality context or must-reject item evaluated on the real code')
ASSUMPTIONS = [
    'square kernels (k,k) and independent output sizes ox, oy; stride/padding/dilation are not read by any built-in model',
    'a valid layer description passes channel counts either as plain numbers (fixed layers) or as 0-d float tensors (NAS '
    'layers); precisions are 0-d float tensors in the tensor representation (MPS convention) and always tensors for MPIC '
    '(its functions call .item()); DIANA is only evaluated in the tensor representation (its helpers read .device)',
    'monotonicity is compared with a relative tolerance of 1e-6 (float32 round-off), exact for plain-number results',
    'bit-width monotonicity is only demanded for params_bit, ops_bit, mpic_latency, mpic_energy, ne16_latency; for '
    'DIANA the precision pair selects the accelerator and is context only',
    'rejection is asserted only where the code declares it: MPIC a in {2,4,8} / w in {0,2,4,8}; NE16 activations == 8 and '
    'kernels 1x1/3x3 (generic) or 3x3 (depthwise) at non-zero weight precision; DIANA (w,a) in {(2,8),(8,8)} and groups == 1 '
    'on the analog accelerator.  Layer types without a registered pattern fall to the CostSpec default (C15), not here',
    'w_theta_alpha (NE16) is context: 1 and 0.5 (the latter makes theta*cout fractional for odd cout)',
]

# ----------------------------------------------------------------------------------------------
# grids
# ----------------------------------------------------------------------------------------------
B = [1, 2, 3, 4, 7, 8, 9, 15, 16, 17, 31, 32, 33, 63, 64, 65, 127, 128, 129, 130]   # tile boundaries
BO = [v for v in B if v <= 33]
QC = [1, 2, 4, 16, 17, 65, 128]          # quick: fixed channel counts (subset of B)
QO = [1, 16]                             # quick: fixed output sizes (subset of PO)
PO = [1, 9, 16]                          # thorough: fixed output sizes of planes and of the lines of generic layers
CH = list(range(1, 131))
OUT = list(range(1, 34))
KS = [1, 3, 5, 7]
BITS = [0, 2, 4, 8]
FRACS = [0.25, 0.5, 0.75]
TOL = 1e-6
STE_NUM = list(range(0, 301))
STE_DIV = list(range(1, 41)) + [64, 128, 256, 512]
REJ_BITS = list(range(0, 10)) + [16, 32]
MAXV = 4          # violations kept per signature and case

# per model: which axes exist; 'us' = rough cost of one call (plain, tensor) used only to size the shards
MODELS = {
    'params':         {'out': False, 'bias': True, 'us': (8, 45)},
    'params_no_bias': {'out': False, 'us': (8, 45)},
    'params_bit':     {'out': False, 'w': BITS, 'us': (8, 45)},
    'ops':            {'out': True, 'bias': True, 'us': (8, 45)},
    'ops_no_bias':    {'out': True, 'us': (8, 45)},
    'ops_bit':        {'out': True, 'w': BITS, 'a': BITS, 'us': (8, 50)},
    'gap8_latency':   {'out': True, 'us': (50, 110)},
    'mpic_latency':   {'out': True, 'bias': True, 'w': BITS, 'a': [2, 4, 8], 'tprec': True, 'us': (20, 55)},
    'mpic_energy':    {'out': True, 'bias': True, 'w': BITS, 'a': [2, 4, 8], 'tprec': True, 'us': (45, 90)},
    'ne16_latency':   {'out': True, 'w': BITS, 'a': [8], 'theta': True, 'k': {'generic': [1, 3], 'dw': [3]},
                       'us': (480, 750)},
    'diana_latency':  {'out': True, 'mode': ['analog', 'digital'], 'reprs': ['tensor'], 'us': (250, 250)},
}
DWGEN_MODELS = ['params', 'params_no_bias', 'params_bit', 'ops', 'ops_no_bias', 'ops_bit']
REJECT_MODELS = ['mpic_latency', 'mpic_energy', 'ne16_latency', 'diana_latency']
STE_REF = {     # helper -> (semantics, accepted numerator forms)
    'gap8_latency.FloorSTE': ('ceil', ['int', 'tensor']),
    'diana_latency.FloorSTE': ('ceil', ['tensor']),
    'ne16_latency.FloorDivideSTE': ('floor', ['int', 'tensor']),
    'ne16_latency.DivAndCeilSTE': ('ceil', ['int', 'tensor']),
    'ne16_latency.ModuloSTE': ('mod', ['int', 'tensor']),
    'diana_latency.GateSTE': ('gate', ['tensor']),
    'diana_latency.ComputeOxUnrollSTE': ('unroll', ['tensor']),
}
_LT = {nn.Conv1d: 'conv1d', nn.Conv2d: 'conv2d', nn.Linear: 'linear'}


# ----------------------------------------------------------------------------------------------
# catalogue of the functions under test
# ----------------------------------------------------------------------------------------------
class Rec:
    __slots__ = ('model', 'ltype', 'dom', 'fn', 'name', 'key')

    def __init__(self, model, ltype, dom, fn):
        self.model, self.ltype, self.dom, self.fn = model, ltype, dom, fn
        self.name = getattr(fn, '__name__', repr(fn))
        self.key = f'{model}/{ltype}/{dom}'


_CAT = None


def _catalogue():
    """-> (dict key -> Rec, list of problems) straight from the pattern lists of the real specifications"""
    global _CAT
    if _CAT is not None:
        return _CAT
    import plinio.cost as pc
    from plinio.cost.pattern import conv_dw_constraint
    recs, problems = {}, []
    names = [n for n in pc.__all__ if isinstance(getattr(pc, n, None), pc.CostSpec)]
    for n in MODELS:
        if n not in names:
            problems.append(('missing-spec', n, f'plinio.cost does not export the CostSpec {n}'))
    for name in names:
        if name not in MODELS:
            problems.append(('uncovered-spec', name, f'plinio.cost exports CostSpec {name} that this check does not cover'))
            continue
        for lt, pats in getattr(pc, name).data.items():
            ltype = _LT.get(lt)
            if ltype is None:
                problems.append(('uncovered-layer-type', f'{name}/{getattr(lt, "__name__", lt)}',
                                 f'{name} registers a pattern for layer type {lt} that this check does not cover'))
                continue
            for con, fn in pats:
                if con is None:
                    dom = 'generic'
                elif con is conv_dw_constraint and ltype != 'linear':
                    dom = 'dw'
                else:
                    problems.append(('uncovered-constraint', f'{name}/{ltype}/{getattr(con, "__name__", con)}',
                                     f'{name} registers {ltype} with constraint {con} that this check does not cover'))
                    continue
                r = Rec(name, ltype, dom, fn)
                if r.key in recs:
                    problems.append(('duplicate-pattern', r.key, f'{name} registers the pattern {ltype}/{dom} twice'))
                    continue
                recs[r.key] = r
                if name == 'diana_latency' and ltype == 'conv2d' and dom == 'generic':
                    # the digital accelerator also serves depthwise layers through the unconstrained function
                    g = Rec(name, ltype, 'gdw', fn)
                    recs[g.key] = g
    _CAT = (recs, problems)
    return _CAT


def _helpers():
    import importlib
    found = {}
    for short in ('gap8_latency', 'ne16_latency', 'diana_latency'):
        # (the attribute plinio.cost.<short> is the CostSpec, the module has to be fetched by name)
        m = importlib.import_module(f'plinio.cost.{short}')
        for n, o in sorted(vars(m).items()):
            if isinstance(o, type) and issubclass(o, torch.autograd.Function) and o.__module__ == m.__name__:
                found[f'{short}.{n}'] = o
    return found


def worker_init():
    _catalogue()


# ----------------------------------------------------------------------------------------------
# layer descriptions
# ----------------------------------------------------------------------------------------------
_TENS = {}
_BIAS = torch.zeros(1)
_WEIGHT = torch.zeros(1)


def _t(v):
    """cached 0-d float32 tensor (the cost functions never modify their arguments)"""
    r = _TENS.get(v)
    if r is None:
        r = _TENS[v] = torch.tensor(float(v))
    return r


def _reprs(rec):
    return MODELS[rec.model].get('reprs', ['int', 'tensor'])


def _mk_spec(rec, rp, p, tin=None, tout=None, tprec=None):
    """the dict a NAS layer hands to the cost function, for coordinates p"""
    M = MODELS[rec.model]
    if rec.dom == 'generic':
        cin, cout, g = p['cin'], p['cout'], 1
    else:
        cin = cout = g = p['c']
    g = p.get('groups', g)
    xin, xout = (_t(cin), _t(cout)) if rp == 'tensor' else (cin, cout)
    if tin is not None:
        xin = tin
    if tout is not None:
        xout = tout
    mode = p.get('mode')
    if mode is not None:
        w, a = (2, 8) if mode == 'analog' else (8, 8)
    else:
        w, a = p.get('w', 8), p.get('a', 8)
    tp = (rp == 'tensor' or bool(M.get('tprec'))) if tprec is None else tprec
    th = p.get('theta', 1)
    s = {'_parameters': {'weight': _WEIGHT, 'bias': _BIAS if p.get('bias') else None},
         'w_precision': _t(w) if tp else w, 'in_precision': _t(a) if tp else a, 'a_precision': _t(a) if tp else a,
         'w_theta_alpha': _t(th) if rp == 'tensor' else th, 'in_format': int, 'w_format': int}
    if rec.ltype == 'linear':
        s['in_features'], s['out_features'], s['output_shape'] = xin, xout, (1, cout)
    else:
        d = 1 if rec.ltype == 'conv1d' else 2
        k = p.get('k', 3)
        ks = tuple(k) if isinstance(k, (list, tuple)) else (k,) * d
        s['in_channels'], s['out_channels'], s['groups'], s['kernel_size'] = xin, xout, g, ks
        s['stride'], s['padding'], s['dilation'] = (1,) * d, (0,) * d, (1,) * d
        s['output_shape'] = (1, cout, p.get('ox', 1)) + ((p.get('oy', 1),) if d == 2 else ())
    return s


def _axes(rec, rp):
    """ordered [(axis, all values, monotone?)] of the function's own domain"""
    M = MODELS[rec.model]
    ax = [('cin', CH, True), ('cout', CH, True)] if rec.dom == 'generic' else [('c', CH, True)]
    if rec.ltype != 'linear':
        ks = KS if rec.dom == 'gdw' else M.get('k', {}).get('generic' if rec.dom == 'generic' else 'dw', KS)
        ax.append(('k', ks, True))
        if M['out']:
            ax.append(('ox', OUT, True))
            if rec.ltype == 'conv2d':
                ax.append(('oy', OUT, True))
    if 'w' in M:
        ax.append(('w', M['w'], True))
    if 'a' in M:
        ax.append(('a', M['a'], True))
    if M.get('bias'):
        ax.append(('bias', [False, True], False))
    if M.get('theta'):
        ax.append(('theta', [1, 0.5] if rp == 'tensor' else [1], False))
    if 'mode' in M:
        ax.append(('mode', ['digital'] if rec.dom == 'gdw' else M['mode'], False))
    return ax


QC_I = [1, 17, 128]                      # the plain-number representation runs the same formulas: smaller fixed sets


def _fixed(name, full, level, rec, rp):
    """values an axis takes while another axis is swept.  level q: quick lines; p: thorough planes; t: thorough lines"""
    if name in ('cin', 'cout', 'c'):
        if rp == 'int':
            return QC_I if level == 'q' else QC
        return QC if level == 'q' else B
    if name in ('ox', 'oy'):
        if level == 'q' or (rp == 'int' and level == 'p'):
            return QO
        return BO if (level == 't' and rp != 'int' and rec.dom != 'generic') else PO
    if name == 'w':
        return [v for v in full if v in (2, 8)] or list(full)
    if name == 'a':
        return [8] if 8 in full else list(full[-1:])
    if name == 'theta':
        return [1] if level == 'q' else list(full)    # (the slowest model: theta = 1/2 only in the thorough tier)
    return list(full)


def _families(rec, rp, tier):
    """-> (axes, [ {swept: [axis..], fixed: {axis: values}} ]); a family = full product of the swept axes x fixed product"""
    ax = _axes(rec, rp)
    names = [a[0] for a in ax]
    fams = []
    if tier == 'thorough' and 'cin' in names:
        fams.append({'swept': ['cin', 'cout'],
                     'fixed': {n: _fixed(n, f, 'p', rec, rp) for n, f, _ in ax if n not in ('cin', 'cout')}})
    lvl = 'q' if tier == 'quick' else 't'
    for n, f, mono in ax:
        if not mono or len(f) < 2:
            continue
        if tier == 'thorough' and n in ('cin', 'cout'):
            continue
        # the bit-width lattice is small: a bit axis is swept for every value of the other bit axis
        fams.append({'swept': [n], 'fixed': {y: (list(fy) if (n in ('w', 'a') and y in ('w', 'a')) else _fixed(y, fy, lvl, rec, rp))
                                             for y, fy, _ in ax if y != n}})
    return ax, fams


def _nctx(ax, fam):
    n = 1
    for name, _, _ in ax:
        if name not in fam['swept']:
            n *= len(fam['fixed'][name])
    return n


# ----------------------------------------------------------------------------------------------
# oracles
# ----------------------------------------------------------------------------------------------
class _Acc:
    """accumulator of one run_case"""

    def __init__(self, case):
        self.case = case
        self.states = self.transitions = self.evals = 0
        self.nontrivial = []
        self.outcomes = set()
        self.viols = []
        self.nsig = {}
        self.sample = None

    def viol(self, kind, sig, msg, only):
        n = self.nsig.get(sig, 0)
        self.nsig[sig] = n + 1
        if n < MAXV:
            self.viols.append({'kind': kind, 'sig': sig, 'msg': msg, 'case': {'kind': self.case['kind'], 'only': only}})

    def result(self):
        r = {'states': self.states, 'transitions': self.transitions, 'evals': self.evals,
             'nontrivial': self.nontrivial, 'outcomes': sorted(self.outcomes), 'violations': self.viols}
        if self.sample is not None:
            r['sample'] = self.sample
        return r


def _call(rec, rp, p, **kw):
    """-> ('ok', float) | ('raise', ExceptionName)"""
    try:
        return 'ok', float(rec.fn(_mk_spec(rec, rp, p, **kw)))
    except Exception as e:   # any exception on a valid layer description is a finding, never a harness crash
        return 'raise', type(e).__name__


def _need_pos(p):
    return p.get('w', 8) != 0 and p.get('a', 8) != 0 and p.get('theta', 1) != 0


def _bad_state(acc, rec, rp, p, st, v, what='layer'):
    """state invariant; returns True when the value cannot be used for edge checks"""
    base = f'{rec.model}/{rec.name}'
    only = {'check': 'state', 'fn': rec.key, 'repr': rp, 'a': dict(p)}
    where = f'{rec.model}.{rec.name} [{rp}] at {p}'
    if st != 'ok':
        acc.outcomes.add('state:raises')
        acc.viol('raises-on-valid-layer', f'{base}/{rp}/raises', f'{where}: raised {v} on a valid {what} description', only)
        return True
    if v != v or v in (math.inf, -math.inf):
        acc.outcomes.add('state:non-finite')
        acc.viol('non-finite', f'{base}/non-finite', f'{where}: returned {v}', only)
        return True
    if v < 0:
        acc.outcomes.add('state:negative')
        acc.viol('negative', f'{base}/negative', f'{where}: returned {v} < 0', only)
    elif v == 0 and _need_pos(p):
        acc.outcomes.add('state:zero-on-nonempty')
        acc.viol('zero-on-nonempty-layer', f'{base}/zero-on-nonempty-layer',
                 f'{where}: returned 0 for a non-empty covered layer at non-zero bit-widths', only)
    return False


def _key(s):
    """compact stable key of a non-trivial edge chain (only counted by the runner)"""
    return hashlib.blake2b(s.encode(), digest_size=6).hexdigest()


def _decreases(a, b):
    return b < a - TOL * max(abs(a), abs(b))


def _edge(acc, rec, rp, axis, pa, pb, va, vb):
    acc.transitions += 1
    if _decreases(va, vb):
        acc.outcomes.add('edge:decrease')
        acc.viol('decreases', f'{rec.model}/{rec.name}/{axis}/decreases',
                 f'{rec.model}.{rec.name} [{rp}] decreases along {axis}: {pa} -> {va!r} but {axis}={pb[axis]} -> {vb!r}',
                 {'check': 'edge', 'fn': rec.key, 'repr': rp, 'axis': axis, 'a': dict(pa), 'b': dict(pb)})
    elif vb > va:
        acc.outcomes.add('edge:increase')
    else:
        acc.outcomes.add('edge:equal')


# ----------------------------------------------------------------------------------------------
# sweeps (lines and planes)
# ----------------------------------------------------------------------------------------------
def _covered_before(ax, fams, j, x, p):
    """values of the swept axis x of line family j (context p) already owned by an earlier family (distinct-state count)"""
    cov = set()
    for i in range(j):
        fi = fams[i]
        ok = True
        for y, _, _ in ax:
            if y == x or y in fi['swept']:
                continue
            if p[y] not in fi['fixed'][y]:
                ok = False
                break
        if not ok:
            continue
        if x in fi['swept']:
            return None     # whole line owned
        cov.update(fi['fixed'][x])
    return cov


def _run_sweep(case, acc):
    recs, _ = _catalogue()
    rec, rp, tier = recs[case['fn']], case['repr'], case['tier']
    ax, fams = _families(rec, rp, tier)
    j = case['fam']
    fam = fams[j]
    swept = fam['swept']
    full = {n: f for n, f, _ in ax}
    order = [n for n, _, _ in ax if n not in swept]
    ctxs = itertools.islice(itertools.product(*[fam['fixed'][y] for y in order]), case['lo'], case['hi'])
    acc.outcomes.add(f'repr:{rp}')
    fn = rec.fn
    # only a few shards write out a sample (the runner keeps the first six it sees)
    show = case['lo'] == 0 and rp == 'tensor' and rec.key in ('gap8_latency/conv2d/generic', 'ne16_latency/conv2d/generic') and j <= 1

    def value(p):
        """one evaluation + state invariant; None when the value cannot take part in an edge"""
        try:
            v = float(fn(_mk_spec(rec, rp, p)))
        except Exception as e:
            _bad_state(acc, rec, rp, p, 'raise', type(e).__name__)
            return None
        if not (v > 0.0 and v != math.inf) and _bad_state(acc, rec, rp, p, 'ok', v):
            return None
        return v

    def chain(x, xs, vals, p):
        """edge invariant along one line; -> does the chain reach a strictly positive value"""
        pos = inc = eq = False
        va = vals[0]
        for i in range(1, len(xs)):
            vb = vals[i]
            if va is not None and vb is not None:
                if vb < va:     # slow path decides with the tolerance and reports
                    _edge(acc, rec, rp, x, dict(p, **{x: xs[i - 1]}), dict(p, **{x: xs[i]}), va, vb)
                else:
                    acc.transitions += 1
                    if vb > va:
                        inc = True
                    else:
                        eq = True
                    if vb > 0:
                        pos = True
            va = vb
        if inc:
            acc.outcomes.add('edge:increase')
        if eq:
            acc.outcomes.add('edge:equal')
        acc.outcomes.add('value:positive' if pos else 'value:zero-chain')
        return pos

    for ctx in ctxs:
        p = dict(zip(order, ctx))
        tag = f'{rec.key}/{rp}/' + ','.join(f'{n}={p[n]}' for n in order)
        if len(swept) == 1:
            x = swept[0]
            xs = full[x]
            vals = []
            for xv in xs:
                p[x] = xv
                vals.append(value(p))
            acc.evals += len(xs)
            cov = _covered_before(ax, fams, j, x, p)
            if cov is not None:
                acc.states += sum(1 for xv in xs if xv not in cov)
            pos = chain(x, xs, vals, p)
            if pos:
                acc.nontrivial.append(_key(f'{tag}/{x}'))
            if acc.sample is None and pos and show:
                acc.sample = {'function': f'{rec.model}.{rec.name}', 'domain': rec.dom, 'repr': rp, 'swept_axis': x,
                              'context': {n: p[n] for n in order}, 'axis_values_head': xs[:6],
                              'cost_values_head': vals[:6], 'edges_in_chain': len(xs) - 1}
        else:
            xa, xb = swept
            A, Bv = full[xa], full[xb]
            grid = []
            for av in A:
                p[xa] = av
                row = []
                for bv in Bv:
                    p[xb] = bv
                    row.append(value(p))
                grid.append(row)
            n = len(A) * len(Bv)
            acc.evals += n
            acc.states += n            # the plane family is always the first family: it owns all its points
            for i, av in enumerate(A):         # chains along xb (one per value of xa) ...
                p[xa] = av
                if chain(xb, Bv, grid[i], p):
                    acc.nontrivial.append(_key(f'{tag}/{xb}@{xa}={av}'))
            for jb, bv in enumerate(Bv):       # ... and along xa (one per value of xb)
                p[xb] = bv
                if chain(xa, A, [grid[i][jb] for i in range(len(A))], p):
                    acc.nontrivial.append(_key(f'{tag}/{xa}@{xb}={bv}'))
            if acc.sample is None and show:
                acc.sample = {'function': f'{rec.model}.{rec.name}', 'domain': rec.dom, 'repr': rp, 'swept_plane': swept,
                              'context': {n: p[n] for n in order},
                              'corner_values': [grid[0][0], grid[0][-1], grid[-1][0], grid[-1][-1]],
                              'edges_in_plane': len(A) * (len(Bv) - 1) + len(Bv) * (len(A) - 1)}


def _only_sweep(item, acc):
    recs, _ = _catalogue()
    rec, rp = recs[item['fn']], item['repr']
    pa = dict(item['a'])
    sa, va = _call(rec, rp, pa)
    acc.evals += 1
    acc.states += 1
    bad_a = _bad_state(acc, rec, rp, pa, sa, va)
    if item.get('b') is not None:
        pb = dict(item['b'])
        sb, vb = _call(rec, rp, pb)
        acc.evals += 1
        acc.states += 1
        bad_b = _bad_state(acc, rec, rp, pb, sb, vb)
        if not bad_a and not bad_b:
            _edge(acc, rec, rp, item['axis'], pa, pb, va, vb)


# ----------------------------------------------------------------------------------------------
# fractional (relaxed) channel counts
# ----------------------------------------------------------------------------------------------
def _frac_fixed(rec, tier):
    ax = _axes(rec, 'tensor')
    out = {}
    for n, f, _ in ax:
        if n in ('cin', 'cout', 'c'):
            out[n] = [3, 16, 65] if tier == 'quick' else [3, 16, 65, 128]
        elif n == 'k':
            out[n] = list(f[:2]) if tier == 'quick' else list(f)
        elif n in ('ox', 'oy'):
            out[n] = [9] if tier == 'quick' else [1, 9]
        elif n == 'w':
            out[n] = [2, 8]
        elif n == 'a':
            out[n] = [f[-1]]
        elif n == 'theta':
            out[n] = [1] if tier == 'quick' else list(f)
        else:
            out[n] = list(f)
    return ax, out


def _frac_segment(acc, rec, axis, p, c, v0=None):
    """points c, c+1/4, c+1/2, c+3/4, c+1 on `axis` (context p): chain non-decreasing, fractional values finite with
    finite gradient.  returns the value at c+1 (None when unusable)"""
    base = f'{rec.model}/{rec.name}/{axis}'
    only = {'check': 'frac', 'fn': rec.key, 'axis': axis, 'p': {k: v for k, v in p.items() if k != axis}, 'c': c}
    q = dict(p)
    q[axis] = c
    if v0 is None:
        st, v0 = _call(rec, 'tensor', q)
        acc.evals += 1
        if _bad_state(acc, rec, 'tensor', q, st, v0):
            v0 = None
    chain = [(c, v0)]
    for f in FRACS:
        t = torch.tensor(c + f, requires_grad=True)
        kw = {'tin': t, 'tout': t} if axis == 'c' else ({'tin': t} if axis == 'cin' else {'tout': t})
        where = f'{rec.model}.{rec.name} at {q} with {axis}={c + f}'
        acc.evals += 1
        acc.states += 1
        try:
            r = rec.fn(_mk_spec(rec, 'tensor', q, **kw))
            v = float(r)
        except Exception as e:
            acc.outcomes.add('frac:raises')
            acc.viol('fractional-raises', f'{base}/fractional-raises', f'{where}: raised {type(e).__name__}', only)
            chain.append((c + f, None))
            continue
        if v != v or v in (math.inf, -math.inf):
            acc.outcomes.add('frac:non-finite')
            acc.viol('fractional-non-finite', f'{base}/fractional-non-finite', f'{where}: returned {v}', only)
            chain.append((c + f, None))
            continue
        if v < 0 or (v == 0 and _need_pos(q)):
            acc.outcomes.add('frac:not-positive')
            acc.viol('fractional-not-positive', f'{base}/fractional-not-positive', f'{where}: returned {v}', only)
        chain.append((c + f, v))
        if isinstance(r, torch.Tensor) and r.requires_grad:
            try:
                g, = torch.autograd.grad(r, t, allow_unused=True)
            except Exception as e:
                acc.outcomes.add('grad:raises')
                acc.viol('fractional-gradient-raises', f'{base}/fractional-gradient-raises',
                         f'{where}: backward raised {type(e).__name__}', only)
                continue
            if g is None:
                acc.outcomes.add('grad:unused')
            else:
                gv = float(g)
                if gv != gv or gv in (math.inf, -math.inf):
                    acc.outcomes.add('grad:non-finite')
                    acc.viol('fractional-gradient-non-finite', f'{base}/fractional-gradient-non-finite',
                             f'{where}: gradient w.r.t. the channel count is {gv}', only)
                else:
                    acc.outcomes.add('grad:zero' if gv == 0 else ('grad:positive' if gv > 0 else 'grad:negative'))
        else:
            acc.outcomes.add('grad:detached')
    q1 = dict(p)
    q1[axis] = c + 1
    st, v1 = _call(rec, 'tensor', q1)
    acc.evals += 1
    if _bad_state(acc, rec, 'tensor', q1, st, v1):
        v1 = None
    chain.append((c + 1, v1))
    for (xa, va), (xb, vb) in zip(chain, chain[1:]):
        if va is None or vb is None:
            continue
        acc.transitions += 1
        if _decreases(va, vb):
            acc.outcomes.add('frac:not-between')
            acc.viol('fractional-not-between-neighbours', f'{base}/fractional-not-between-neighbours',
                     f'{rec.model}.{rec.name} at {q}: {axis}={xa} -> {va!r} but {axis}={xb} -> {vb!r}', only)
        else:
            acc.outcomes.add('frac:between')
    return v1


def _run_frac(case, acc):
    recs, _ = _catalogue()
    rec, axis, tier = recs[case['fn']], case['axis'], case['tier']
    ax, fx = _frac_fixed(rec, tier)
    order = [n for n, _, _ in ax if n != axis]
    ctxs = itertools.islice(itertools.product(*[fx[y] for y in order]), case['lo'], case['hi'])
    for ctx in ctxs:
        p = dict(zip(order, ctx))
        v = None
        for c in CH[:-1]:
            v = _frac_segment(acc, rec, axis, p, c, v)
        acc.nontrivial.append(f'{rec.key}/frac/{axis}/' + ','.join(f'{n}={p[n]}' for n in order))
        if acc.sample is None and case['lo'] == 0 and axis == 'cout':
            acc.sample = {'function': f'{rec.model}.{rec.name}', 'fractional_axis': axis, 'context': p,
                          'points_per_unit_step': [0.25, 0.5, 0.75], 'range': [1, 130]}


def _only_frac(item, acc):
    recs, _ = _catalogue()
    _frac_segment(acc, recs[item['fn']], item['axis'], dict(item['p']), item['c'])


# ----------------------------------------------------------------------------------------------
# autograd rounding helpers
# ----------------------------------------------------------------------------------------------
def _ste_items(name):
    sem, forms = STE_REF[name]
    if sem in ('ceil', 'floor', 'mod'):
        for form in forms:
            for d in STE_DIV:
                for n in STE_NUM:
                    yield {'helper': name, 'form': form, 'n': n, 'd': d}
    elif sem == 'gate':
        for th in (1.0, 2.0, 4.0):
            for n in [0, 0.25, 0.5, 0.75, 1.5, 2.5, 3.5] + STE_NUM:
                yield {'helper': name, 'form': 'tensor', 'n': n, 'd': th}
    else:
        for k in KS:
            for cin in B:
                for n in CH + [255, 256, 257, 511, 512, 513, 600]:
                    yield {'helper': name, 'form': 'tensor', 'n': n, 'd': [cin, k]}


def _ste_check(item, acc, H):
    name, form, n, d = item['helper'], item['form'], item['n'], item['d']
    sem = STE_REF[name][0]
    sig = f'ste/{name}'
    acc.evals += 1
    acc.states += 1
    args = tuple(d[:1] + [d[1], d[1]]) if sem == 'unroll' else (d,)
    try:
        x = n if form == 'int' else torch.tensor(float(n), requires_grad=True)
        y = H.apply(x, *args)
        v = float(y)
    except Exception as e:
        acc.outcomes.add('ste:raises')
        acc.viol('helper-raises', f'{sig}/{form}/raises', f'{name}.apply({n} [{form}], {d}) raised {type(e).__name__}', item)
        return
    if sem == 'unroll':
        okv = v in (1.0, 2.0, 4.0, 8.0)
        ref = 'one of 1,2,4,8'
    else:
        ref = {'ceil': lambda: -(-n // d), 'floor': lambda: n // d, 'mod': lambda: n % d,
               'gate': lambda: 1.0 if n >= d else 0.0}[sem]()
        okv = v == ref
    if not okv:
        acc.outcomes.add('ste:wrong-value')
        acc.viol('helper-wrong-value', f'{sig}/wrong-value', f'{name}.apply({n} [{form}], {d}) = {v}, exact {sem} is {ref}', item)
    else:
        acc.outcomes.add(f'ste:exact-{sem}')
    if form != 'tensor':
        return
    if sem == 'unroll' and not (isinstance(y, torch.Tensor) and y.requires_grad):
        # not a rounding helper: it selects an (integer-typed) unroll factor, which autograd treats as non-differentiable
        acc.outcomes.add('ste:unroll-output-not-differentiable')
        return
    acc.transitions += 1
    try:
        g, = torch.autograd.grad(y, x, allow_unused=True)
        gv = None if g is None else float(g)
    except Exception as e:
        acc.outcomes.add('ste:grad-raises')
        acc.viol('helper-gradient', f'{sig}/gradient-not-passed', f'{name}.apply({n}, {d}): backward raised {type(e).__name__}', item)
        return
    finite = gv is not None and gv == gv and gv not in (math.inf, -math.inf)
    # the gate is a smooth step: its surrogate gradient lives strictly inside (0, threshold) and is 0 elsewhere
    must_nonzero = (0 < n < d) if sem == 'gate' else True
    if not finite or (must_nonzero and gv == 0):
        acc.outcomes.add('ste:grad-bad')
        acc.viol('helper-gradient', f'{sig}/gradient-not-passed',
                 f'{name}.apply({n}, {d}): gradient w.r.t. the first argument is {gv} (expected finite'
                 f'{" and non-zero" if must_nonzero else ""})', item)
    else:
        acc.outcomes.add('ste:grad-passed' if gv != 0 else 'ste:grad-zero-outside-gate-window')


def _run_ste(case, acc):
    if case.get('only') is not None:
        _ste_check(case['only'], acc, _helpers()[case['only']['helper']])
        return
    H = _helpers()[case['helper']]
    items = list(_ste_items(case['helper']))[case['lo']:case['hi']]
    keys = set()
    for item in items:
        _ste_check(item, acc, H)
        keys.add(f"ste/{item['helper']}/{item['form']}/d={item['d']}")
    acc.nontrivial.extend(sorted(keys))
    if case['lo'] == 0 and case['helper'] == 'ne16_latency.DivAndCeilSTE':
        acc.sample = {'helper': case['helper'], 'semantics': STE_REF[case['helper']][0], 'first_item': items[0], 'items': len(items)}


# ----------------------------------------------------------------------------------------------
# depthwise == generic evaluated per group
# ----------------------------------------------------------------------------------------------
def _dwgen_check(item, acc):
    recs, _ = _catalogue()
    model, ltype, rp, p = item['model'], item['ltype'], item['repr'], dict(item['p'])
    gen, dw = recs[f'{model}/{ltype}/generic'], recs[f'{model}/{ltype}/dw']
    sg, g1 = _call(gen, rp, dict(p, cin=1, cout=1))
    acc.evals += 1
    if _bad_state(acc, gen, rp, dict(p, cin=1, cout=1), sg, g1):
        return
    for c in ([item['c']] if item.get('c') is not None else CH):
        q = dict(p, c=c)
        sd, vd = _call(dw, rp, q)
        acc.evals += 1
        acc.states += 1
        if _bad_state(acc, dw, rp, q, sd, vd):
            continue
        ref = c * g1
        acc.transitions += 1
        if abs(vd - ref) > (0 if rp == 'int' else TOL * max(abs(vd), abs(ref))):
            acc.outcomes.add('dwgen:differs')
            acc.viol('depthwise-differs-from-generic-per-group', f'{model}/{ltype}/depthwise-differs-from-generic-per-group',
                     f'{model}.{dw.name} [{rp}] at {q} = {vd!r} but {c} groups x {gen.name}(cin=1,cout=1) = {ref!r}',
                     dict(item, c=c))
        else:
            acc.outcomes.add('dwgen:equal-zero' if ref == 0 else 'dwgen:equal')


def _run_dwgen(case, acc):
    if case.get('only') is not None:
        _dwgen_check(case['only'], acc)
        return
    recs, _ = _catalogue()
    model, ltype = case['model'], case['ltype']
    dw = recs[f'{model}/{ltype}/dw']
    for rp in _reprs(dw):
        ax = [(n, f) for n, f, _ in _axes(dw, rp) if n != 'c']
        lists = [([1, 9] if n == 'ox' else [1, 16] if n == 'oy' else list(f)) for n, f in ax]
        for ctx in itertools.product(*lists):
            p = dict(zip([n for n, _ in ax], ctx))
            _dwgen_check({'model': model, 'ltype': ltype, 'repr': rp, 'p': p}, acc)
            acc.nontrivial.append(f'dwgen/{model}/{ltype}/{rp}/' + ','.join(f'{k}={v}' for k, v in p.items()))
    if (model, ltype) == ('ops', 'conv2d'):
        acc.sample = {'model': model, 'layer': ltype, 'equality': 'depthwise(c) == c * generic(cin=1, cout=1)', 'c': [1, 130]}


# ----------------------------------------------------------------------------------------------
# rejection of unsupported precisions / kernels / groups
# ----------------------------------------------------------------------------------------------
def _reject_items(model):
    recs, _ = _catalogue()
    for rec in [r for r in recs.values() if r.model == model and r.dom != 'gdw']:
        base = {'cin': 8, 'cout': 8} if rec.dom == 'generic' else {'c': 8}
        if rec.ltype != 'linear':
            base.update(k=3, ox=4, oy=4)
        if model.startswith('mpic'):
            for a in REJ_BITS:
                for w in REJ_BITS:
                    yield {'fn': rec.key, 'what': 'precision', 'tprec': True, 'p': dict(base, w=w, a=a, bias=False),
                           'supported': a in (2, 4, 8) and w in (0, 2, 4, 8)}
        elif model == 'ne16_latency':
            for tprec in (False, True):
                for a in REJ_BITS:
                    for w in (2, 4, 8):
                        yield {'fn': rec.key, 'what': 'precision', 'tprec': tprec, 'p': dict(base, w=w, a=a, theta=1),
                               'supported': a == 8}
            if rec.ltype != 'linear':
                legal = [(1, 1), (3, 3)] if rec.dom == 'generic' else [(3, 3)]
                for kx in range(1, 8):
                    for ky in range(1, 8):
                        yield {'fn': rec.key, 'what': 'kernel', 'tprec': False, 'p': dict(base, k=[kx, ky], w=8, a=8, theta=1),
                               'supported': (kx, ky) in legal}
        elif model == 'diana_latency':
            for tprec in (False, True):
                for w in REJ_BITS:
                    for a in REJ_BITS:
                        yield {'fn': rec.key, 'what': 'precision', 'tprec': tprec, 'p': dict(base, w=w, a=a),
                               'supported': (w, a) in ((2, 8), (8, 8))}
            if rec.ltype != 'linear':
                for cin, cout, g in ((8, 8, 8), (8, 8, 2), (8, 16, 4), (1, 1, 1), (8, 8, 1)):
                    for w in (2, 8):
                        yield {'fn': rec.key, 'what': 'groups', 'tprec': False,
                               'p': dict(base, cin=cin, cout=cout, groups=g, w=w, a=8), 'supported': g == 1 or w == 8}


def _reject_check(item, acc):
    recs, _ = _catalogue()
    rec = recs[item['fn']]
    p = dict(item['p'])
    st, v = _call(rec, 'tensor', p, tprec=item['tprec'])
    acc.evals += 1
    acc.states += 1
    acc.transitions += 1
    what = item['what']
    if item['supported']:
        if st != 'ok':
            acc.outcomes.add('reject:rejects-supported')
            acc.viol('rejects-supported', f'{rec.model}/{rec.name}/rejects-supported-{what}',
                     f'{rec.model}.{rec.name} raised {v} on the supported {what} setting {p}', item)
        else:
            acc.outcomes.add('reject:supported-accepted')
            if not (v >= 0 and v != math.inf):
                _bad_state(acc, rec, 'tensor', p, st, v)
    else:
        if st == 'ok':
            acc.outcomes.add('reject:accepts-unsupported')
            acc.viol('accepts-unsupported', f'{rec.model}/{rec.name}/accepts-unsupported-{what}',
                     f'{rec.model}.{rec.name} returned {v} instead of rejecting the unsupported {what} setting {p} '
                     f'(precisions as {"tensors" if item["tprec"] else "ints"})', item)
        else:
            acc.outcomes.add('reject:unsupported-rejected')


def _run_reject(case, acc):
    if case.get('only') is not None:
        _reject_check(case['only'], acc)
        return
    n = 0
    for item in _reject_items(case['model']):
        _reject_check(item, acc)
        if not item['supported']:
            acc.nontrivial.append(f"reject/{item['fn']}/{item['what']}/{item['tprec']}/" +
                                  ','.join(f'{k}={v}' for k, v in item['p'].items()))
        n += 1
    if case['model'] == 'ne16_latency':
        acc.sample = {'model': case['model'], 'items': n, 'grid_bits': REJ_BITS, 'kernels': '1..7 x 1..7'}


# ----------------------------------------------------------------------------------------------
# catalogue
# ----------------------------------------------------------------------------------------------
def _run_catalogue(case, acc):
    recs, problems = _catalogue()
    for kind, what, msg in problems:
        acc.viol('catalogue', f'catalogue/{kind}/{what}', msg, {'check': 'catalogue'})
    found = _helpers()
    for h in found:
        if h not in STE_REF:
            acc.viol('catalogue', f'catalogue/uncovered-helper/{h}', f'autograd helper {h} is not covered by this check',
                     {'check': 'catalogue'})
    for h in STE_REF:
        if h not in found:
            acc.viol('catalogue', f'catalogue/missing-helper/{h}', f'autograd helper {h} no longer exists', {'check': 'catalogue'})
    # which argument representations every function takes at an ordinary point (recorded, only the declared ones are swept)
    for rec in recs.values():
        acc.states += 1
        acc.nontrivial.append(f'catalogue/{rec.key}')
        for rp in ('int', 'tensor'):
            ax = _axes(rec, rp)
            p = {n: (f[len(f) // 2] if n not in ('w', 'a') else f[-1]) for n, f, _ in ax}
            st, v = _call(rec, rp, p)
            acc.evals += 1
            if rp in _reprs(rec):
                _bad_state(acc, rec, rp, p, st, v)
                acc.outcomes.add(f'catalogue:{rp}-repr-evaluates')
            else:
                acc.outcomes.add(f'catalogue:{rec.model}-{rp}-repr-' + ('evaluates' if st == 'ok' else f'raises-{v}-not-swept'))
    acc.sample = {'functions': sorted(f'{r.key}:{r.name}' for r in recs.values()), 'helpers': sorted(found)}


# ----------------------------------------------------------------------------------------------
# contract
# ----------------------------------------------------------------------------------------------
_RUN = {'catalogue': _run_catalogue, 'ste': _run_ste, 'reject': _run_reject, 'dwgen': _run_dwgen,
        'sweep': _run_sweep, 'frac': _run_frac}


def _shards(n, per):
    per = max(1, per)
    return [(lo, min(n, lo + per)) for lo in range(0, n, per)]


def cases(tier, seed):
    recs, _ = _catalogue()
    out = [{'kind': 'catalogue'}]
    for h in STE_REF:
        if h in _helpers():
            n = sum(1 for _ in _ste_items(h))
            for lo, hi in _shards(n, 4000):
                out.append({'kind': 'ste', 'helper': h, 'lo': lo, 'hi': hi})
    for m in REJECT_MODELS:
        if any(r.model == m for r in recs.values()):
            out.append({'kind': 'reject', 'model': m})
    for m in DWGEN_MODELS:
        for lt in ('conv1d', 'conv2d'):
            if f'{m}/{lt}/generic' in recs and f'{m}/{lt}/dw' in recs:
                out.append({'kind': 'dwgen', 'model': m, 'ltype': lt})
    target = 0.6e6 if tier == 'quick' else 3e6       # micro-seconds of work per shard
    big = []
    for rec in recs.values():
        for rp in _reprs(rec):
            us = MODELS[rec.model]['us'][0 if rp == 'int' else 1]
            ax, fams = _families(rec, rp, tier)
            full = {n: f for n, f, _ in ax}
            for j, fam in enumerate(fams):
                g = 1
                for x in fam['swept']:
                    g *= len(full[x])
                for lo, hi in _shards(_nctx(ax, fam), int(target / (g * us))):
                    big.append((g * us * (hi - lo), {'kind': 'sweep', 'tier': tier, 'fn': rec.key, 'repr': rp, 'fam': j,
                                                     'lo': lo, 'hi': hi}))
    for rec in recs.values():
        if rec.dom == 'gdw':
            continue        # groups must equal the (integer) channel count
        us = 129 * 8 * MODELS[rec.model]['us'][1]        # one context = 129 unit steps x (3 fractional + backward, 1 integer)
        ax, fx = _frac_fixed(rec, tier)
        for axis in [n for n, _, _ in ax if n in ('cin', 'cout', 'c')]:
            n = 1
            for y, _, _ in ax:
                if y != axis:
                    n *= len(fx[y])
            for lo, hi in _shards(n, int(target / us)):
                big.append((us * (hi - lo), {'kind': 'frac', 'tier': tier, 'fn': rec.key, 'axis': axis, 'lo': lo, 'hi': hi}))
    # the shards of one function stay in order (simplest first); the few shards that cannot be split below the target
    # (one whole plane of a slow model) are started first so that the pool does not end on them
    long_ = [c for w, c in big if w > 1.5 * target]
    return out + long_ + [c for w, c in big if w <= 1.5 * target]


def run_case(case, seed):
    acc = _Acc(case)
    only = case.get('only')
    check = only.get('check') if only is not None else None
    if check in ('state', 'edge'):          # (state violations can be raised from inside any case kind)
        _only_sweep(only, acc)
    elif check == 'frac':
        _only_frac(only, acc)
    elif check == 'catalogue':
        _run_catalogue(case, acc)
    else:
        _RUN[case['kind']](case, acc)
    return acc.result()


def bounds(tier):
    return {'channels': [1, 130], 'kernels': KS, 'kernels_ne16': MODELS['ne16_latency']['k'], 'output_sizes': [1, 33],
            'bits': BITS, 'bits_mpic_activations': [2, 4, 8], 'fractions': FRACS,
            'fixed_channels_lines': QC if tier == 'quick' else B, 'fixed_channels_lines_plain_numbers': QC_I if tier == 'quick' else QC,
            'fixed_outputs': QO if tier == 'quick' else PO, 'fixed_outputs_depthwise': QO if tier == 'quick' else BO,
            'fixed_bits': [2, 8], 'planes_cin_x_cout': tier != 'quick', 'representations': ['int', 'tensor'],
            'ste_numerators': [0, 300], 'ste_divisors': STE_DIV, 'rejection_bits': REJ_BITS, 'rel_tol': TOL}
