"""C05 - MPS cost equals the exact bit-cost of the selected precision assignment.

Configuration-lattice explorer over G_mps: per-layer search with every precision tuple pair and arg-max assignment, per-channel
search without and with the 0-bit (pruning) option with the arg-max of every channel enumerated (complete per layer when small).
In eval mode and in hard-sampling training mode, after a forward:
  get_cost('params_bit') == sum over layers of (#weights of the alive sub-tensor) x selected weight bits,
  get_cost('ops_bit')    == sum of MACs x weight bits x input bits,
both recomputed by a reference from summary() and the ORIGINAL model's shapes (program level alive-channel propagation);
mpic_latency / ne16_latency == the library function applied once per (layer, selected precision group) on the reference counts;
a probing CostSpec (returns 0, records the spec it is shown) must see the effective input/output feature counts under the
PyTorch attribute names of the layer type, and pruning a producer must lower what every consumer type is shown.
Structures: the flatten in front of the head's first Linear in every equivalent SPELLING (explicit non-negative end_dim positional /
keyword / method / nn.Flatten(1, d + 1), explicit -1, nn.Flatten(), negative start_dim), 2D and 1D, as single-option deviations.
Protocol 'deepcopy' (every 6th enumerated case quick / all thorough): the same assignments are explored on copy.deepcopy(model) -
one copy taken with the evaluation options, one with the hard-sampling training options; only the copies' coefficients and modes are
touched afterwards - while the converted model stays alive and untouched: the copy's cost must equal the exact bit-cost of the
assignment the COPY's summary() reports, and at the end the untouched model still prices its own (initial) assignment exactly.
"""
import copy
import itertools
import math

import torch
import torch.nn as nn

from ..grammar import mps as GM
from ..grammar import net2d as G2
from .. import tol
from .c02 import make, set_assignment, enum_assignments
from .c10 import _reps

PID = 'C05'
RULE = ('programs: sequential / depthwise / residual G_mps programs up to the depth bound; per-layer: precision tuples x arg-max assignments as in C02 '
        '(eval mode and hard training mode); per-channel without / with the 0-bit option: every per-channel arg-max pattern of one layer at a time '
        '(complete for <= 4 channels x <= 4 precisions) with the other layers on 2 fixed patterns; metrics params_bit, ops_bit (+ mpic_latency, and '
        'ne16_latency with 8-bit activations) and a probing spec; non-trivial = a configuration in which some selector is away from its initial '
        'arg-max or some channel is pruned; flatten spellings (GM.gen_flat: module / moduleend / torchend / kwend / methodend / methodkwend / method / '
        'torchneg1 / negstart / negstartend x {flatlin, linlin, gaplin} x {2D, 1D}) per-layer, flatlin ones also per-channel with the 0-bit option '
        '(thorough: all per-channel); protocol deepcopy (every 6th enumerated case quick, all thorough): the assignments are realised on deep copies '
        '(taken once with the eval options, once with the hard-training options; afterwards only alpha / train() / eval() of the copy are used) '
        'while the converted model stays alive and untouched')
ASSUMPTIONS = ['the reference counts weights of the alive sub-tensor: alive output channels x alive input channels (x kernel) per layer, biases excluded as the '
               'metric documents', 'per-channel patterns are realised by tie-free representatives',
               'known finding D8 is matched only in per-channel configurations where at least one channel of the charged layer is pruned',
               'a deep copy of an MPS model (taken before any gradient-carrying forward) is an independent MPS model: the property holds for it with '
               'respect to its own summary(); in the deep-copy protocol the softmax options are fixed per copy (set on the model before copying) '
               'instead of rotating per state']


def bounds(tier):
    return {'quick': {'G_depth': 2, 'per_channel_channels': 3, 'complete_cap': 27, 'flatten_spellings': 10, 'deepcopy_protocol_cases': 'index % 6 == 1'},
            'thorough': {'G_depth': 2, 'per_channel_channels': 4, 'complete_cap': 243, 'flatten_spellings': 10, 'deepcopy_protocol_cases': 'all'}}[tier]


SEQ_PROGS = [
    {'stages': [{'op': 'conv', 'cout': 3}], 'head': 'flatlin'},
    {'stages': [{'op': 'conv', 'cout': 3}], 'head': 'gaplin'},
    {'stages': [{'op': 'conv', 'cout': 3}, {'op': 'conv', 'cout': 3, 'k': 1}], 'head': 'flatlin'},
    {'stages': [{'op': 'conv', 'cout': 3}, {'op': 'conv', 'dw': True}], 'head': 'gaplin'},
    {'stages': [{'op': 'conv', 'cout': 3, 'bn': True}, {'op': 'pool'}], 'head': 'linlin'},
    {'stages': [{'op': 'conv', 'cout': 3}, {'op': 'conv', 'dw': True}, {'op': 'conv', 'cout': 2, 'k': 1}], 'head': 'flatlin'},
    {'stages': [{'op': 'residual', 'cout': 3}], 'head': 'flatlin'},
    {'stages': [{'op': 'conv', 'cout': 3}, {'op': 'skipadd'}], 'head': 'gaplin'},
]


def cases(tier, seed):
    out = []
    # per-layer
    for p in GM.gen(2, with_opts=False):
        for a, w in (((2, 4, 8), (2, 4, 8)), ((8, 2), (4, 2, 8))):
            out.append({'mode': 'layer', 'prog': p, 'a': list(a), 'w': list(w), 'tier': tier})
    for p in GM.gen_twice():
        for a, w in (((2, 4, 8), (2, 4, 8)), ((8, 2), (4, 2, 8))):
            out.append({'mode': 'layer', 'prog': p, 'a': list(a), 'w': list(w), 'tier': tier})
    # the same grammar in 1D (MPSConv1d has its own get_cost / get_modified_vars)
    for p in GM.gen(2, with_opts=False) + GM.gen_twice():
        out.append({'mode': 'layer', 'prog': dict(p, dim=1, size=8), 'a': [2, 4, 8], 'w': [4, 2, 8], 'tier': tier})
    for p in GM.gen(1, with_opts=False):
        if p['head'] == 'flatlin':
            for a in GM.precision_tuples():
                for w in GM.precision_tuples():
                    out.append({'mode': 'layer', 'prog': p, 'a': list(a), 'w': list(w), 'tier': tier, 'sweep': True})
    # per-channel
    for i, p in enumerate(SEQ_PROGS):
        prog = dict(p, cin=3, size=6)
        for w in ((2, 4, 8), (0, 2, 4, 8), (0, 8), (4, 0, 2)):
            for a in ((8,), (4, 8)):
                out.append({'mode': 'channel', 'prog': prog, 'a': list(a), 'w': list(w), 'tier': tier})
        for w in ((2, 4, 8), (0, 2, 8)):
            out.append({'mode': 'channel', 'prog': dict(prog, dim=1, size=8), 'a': [4, 8], 'w': list(w), 'tier': tier})
    # spellings of the flatten in front of the first Linear (single-option deviations)
    for p in GM.gen_flat():
        out.append({'mode': 'layer', 'prog': p, 'a': [2, 4, 8], 'w': [4, 2, 8], 'tier': tier})
        if p['head'] == 'flatlin' or tier == 'thorough':
            out.append({'mode': 'channel', 'prog': p, 'a': [8], 'w': [0, 2, 8], 'tier': tier})
    # protocol 'deepcopy': the assignments explored on deep copies of the converted model (rotating over the enumerated cases)
    for j, c in enumerate(list(out)):
        if tier == 'thorough' or j % 6 == 1:
            out.append(dict(c, proto='deepcopy'))
    return out


# ----------------------------------------------------------------------------------------------
# reference
# ----------------------------------------------------------------------------------------------
def _orig_shapes(prog, seed):
    """conv / linear layers of the ORIGINAL model in dataflow order with their static shapes"""
    model, x = G2.build(prog, seed)
    shapes = {}
    hooks = []
    for n, m in model.named_modules():
        if isinstance(m, (nn.Conv1d, nn.Conv2d, nn.Linear)):
            hooks.append(m.register_forward_hook(lambda mod, i, o, n=n: shapes.setdefault(n, []).append(tuple(o.shape))))
    with torch.no_grad():
        model(x)
    for h in hooks:
        h.remove()
    info = {}
    for n, m in model.named_modules():
        if isinstance(m, (nn.Conv1d, nn.Conv2d)):
            info[n] = {'type': 'conv', 'cin': m.in_channels, 'cout': m.out_channels, 'k': m.kernel_size, 'dw': m.groups == m.in_channels == m.out_channels and m.groups > 1,
                       'out_hw': shapes[n][0][2:], 'sites': sum(math.prod(sh[2:]) for sh in shapes[n])}
        elif isinstance(m, nn.Linear):
            info[n] = {'type': 'linear', 'cin': m.in_features, 'cout': m.out_features}
    return info, model


def _producers(prog):
    """program-level dataflow: layer name -> list of (producer layer name | None for the network input), flatten multiplier"""
    T = None            # name of the layer whose output mask defines the running tensor's alive channels (None: network input)
    prod = {}
    for i, st in enumerate(prog['stages']):
        op = st['op']
        if op == 'conv':
            prod[f'blocks.s{i}'] = T
            if not st.get('dw'):
                T = f'blocks.s{i}'
            else:
                T = f'blocks.s{i}'      # depthwise: own (shared) mask
        elif op == 'residual':
            prod[f'blocks.s{i}a'] = T
            prod[f'blocks.s{i}b'] = T
            T = f'blocks.s{i}a'
        elif op == 'skipadd':
            prod[f'blocks.s{i}a'] = T
            T = f'blocks.s{i}a'
        elif op == 'twice':           # (per-layer search only: every channel is alive at both call sites)
            prod[f'blocks.s{i}'] = T
            T = f'blocks.s{i}'
    h = prog.get('head', 'flatlin')
    if h in ('flatlin', 'gaplin'):
        prod['head.fc'] = T
    else:
        prod['head.fc1'] = T
        prod['head.fc'] = 'head.fc1'
    return prod


def _ref_costs(prog, info, summ, model):
    """exact bit costs from summary() + original shapes"""
    prod = _producers(prog)

    def wprec(name):
        w = summ[name]['w_precision']
        n = info[name]['cout']
        return list(w) if isinstance(w, list) else [w] * n

    def alive_out(name):
        return [p != 0 for p in wprec(name)]

    tot = {'params_bit': 0.0, 'ops_bit': 0.0}
    d8 = {'params_bit': 0.0, 'ops_bit': 0.0}
    per_layer = {}
    for name, li in info.items():
        p = prod[name]
        if p is None:
            in_alive = li['cin']
            mult = 1
        else:
            a = sum(alive_out(p))
            if li['type'] == 'linear' and info[p]['type'] == 'conv':
                mult = li['cin'] // info[p]['cout']
            else:
                mult = 1
            in_alive = a * mult
        bits = wprec(name)
        in_bits = summ[name]['in_precision']
        if li['type'] == 'conv':
            kk = math.prod(li['k'])
            sites = li['sites']       # output positions summed over every call site of the layer
            per_out = kk if li['dw'] else kk * in_alive
        else:
            sites = 1
            per_out = in_alive
        pb = sum(per_out * b for b in bits)
        ob = sum(per_out * sites * b * in_bits for b in bits)
        tot['params_bit'] += pb
        tot['ops_bit'] += ob
        oa = sum(1 for b in bits if b != 0)
        per_layer[name] = {'in_alive': in_alive, 'out_alive': oa, 'bits': bits, 'in_bits': in_bits,
                           'params_bit': pb, 'ops_bit': ob}
        # what finding D8 predicts: the exact layer cost discounted once more by (alive output channels / all output channels)
        d8['params_bit'] += pb * oa / max(1, len(bits))
        d8['ops_bit'] += ob * oa / max(1, len(bits))
    tot['d8'] = d8
    return tot, per_layer


def _probe_spec(record):
    from plinio.cost import CostSpec
    from plinio.cost.pattern import Conv2dGeneric, Conv2dDW, LinearGeneric, Conv1dGeneric, Conv1dDW

    def fn(spec):
        w = spec['_parameters']['weight']
        record.setdefault(id(w), []).append({k: (float(spec[k]) if spec.get(k) is not None else None)
                                             for k in ('in_channels', 'out_channels', 'in_features', 'out_features') if k in spec})
        return torch.tensor(0.0)
    cs = CostSpec(shared=True, default_behavior='zero')
    cs[Conv2dGeneric] = fn
    cs[Conv2dDW] = fn
    cs[Conv1dGeneric] = fn
    cs[Conv1dDW] = fn
    cs[LinearGeneric] = fn
    return cs


def _count_spec(which):
    """a probing spec that simply RETURNS the feature count it is shown (in or out), whatever the precisions: the layer cost is then
    sum_ij theta_in[i] * theta_w[j] * count = count, because both coefficient vectors are probability vectors"""
    from plinio.cost import CostSpec
    from plinio.cost.pattern import Conv2dGeneric, Conv2dDW, LinearGeneric, Conv1dGeneric, Conv1dDW

    def fn(spec):
        keys = ('in_channels', 'in_features') if which == 'in' else ('out_channels', 'out_features')
        if '_parameters' in spec and spec['_parameters'].get('weight') is not None and spec['_parameters']['weight'].dim() == 2:
            keys = keys[::-1]
        for k in keys:
            if k in spec and spec[k] is not None:
                v = spec[k]
                return v if isinstance(v, torch.Tensor) else torch.tensor(float(v))
        return torch.tensor(0.0)
    cs = CostSpec(shared=True, default_behavior='zero')
    cs[Conv2dGeneric] = fn
    cs[Conv2dDW] = fn
    cs[Conv1dGeneric] = fn
    cs[Conv1dDW] = fn
    cs[LinearGeneric] = fn
    return cs


def _check(nas, x, prog, info, model, record, metrics, label, add, d8_ok):
    summ = nas.summary()
    tot, per_layer = _ref_costs(prog, info, summ, model)
    pruned = any(pl['out_alive'] < info[n]['cout'] for n, pl in per_layer.items())
    for name in ('params_bit', 'ops_bit'):
        got = float(nas.get_cost(name))
        ok, why = tol.cost_close(got, tot[name])
        if not ok:
            sig = f'cost-differs/{name}'
            # attributed to finding D8 only when the value is exactly what the double discount predicts
            if d8_ok and pruned and tol.cost_close(got, tot['d8'][name])[0]:
                sig += '/per-channel-with-pruned-channels'
            add('cost-differs', sig, f'{label}: get_cost({name})={got} but the exact bit-cost of the reported assignment is {tot[name]} '
                                     f'(per layer: { {n: (pl["bits"], pl["in_alive"]) for n, pl in per_layer.items()} })')
    # counting specs: every (input precision, weight precision) alternative must be priced - the 0-bit one included - so that the
    # coefficient-weighted sum of a constant is that constant
    for name, key in (('count_in', 'in_alive'), ('count_out', 'out_alive')):
        got = float(nas.get_cost(name))
        want = float(sum(pl[key] for pl in per_layer.values()))
        if abs(got - want) > 1e-3 + 1e-5 * abs(want):
            add('count-spec-differs', f'count-spec-differs/{name}',
                f'{label}: a cost spec that returns the {key.split("_")[0]}put feature count it is shown gives {got}, the alive counts sum to {want} '
                f'({ {n: pl[key] for n, pl in per_layer.items()} })')
    # probing spec: effective counts under the PyTorch names of the layer type
    record.clear()
    nas.get_cost('probe')
    named = {id(m.weight): n for n, m in nas.seed.named_modules() if hasattr(m, 'weight') and isinstance(getattr(m, 'weight', None), nn.Parameter)}
    for wid, recs in record.items():
        lname = named.get(wid)
        if lname is None or lname not in per_layer:
            continue
        pl = per_layer[lname]
        r = recs[0]
        keys = ('in_features', 'out_features') if info[lname]['type'] == 'linear' else ('in_channels', 'out_channels')
        want = (pl['in_alive'], pl['out_alive'])
        if info[lname]['type'] == 'conv' and info[lname]['dw']:
            want = (pl['in_alive'], pl['out_alive'])
        got = (r.get(keys[0]), r.get(keys[1]))
        if got[0] is None or abs(got[0] - want[0]) > 1e-4:
            add('probe-in-features', f'probe-in-features/{info[lname]["type"]}',
                f'{label}: cost function of {lname} is shown {keys[0]}={got[0]} but {want[0]} alive features reach it')
        if got[1] is None or abs(got[1] - want[1]) > 1e-4:
            add('probe-out-features', f'probe-out-features/{info[lname]["type"]}',
                f'{label}: cost function of {lname} is shown {keys[1]}={got[1]} but it has {want[1]} alive output features')
    return per_layer


def run_case(case, seed):
    prog, a, w, mode = case['prog'], case['a'], case['w'], case['mode']
    tier = case.get('tier', 'quick')
    b = bounds(tier)
    res = {'states': 0, 'transitions': 0, 'evals': 0, 'nontrivial': [], 'outcomes': set(), 'violations': []}
    base_case = {k: v for k, v in case.items() if k != 'only'}
    cur = [None]

    proto = case.get('proto')

    def add(kind, sig, msg):
        res['outcomes'].add(kind)
        # the signature names the new structure (flatten spelling) / protocol (deep copy); the listed finding D8 is the same defect
        # whatever the spelling and on a copy as well: its signature is kept
        if not sig.endswith('/per-channel-with-pruned-channels'):
            if prog.get('flat'):
                sig += '/flatten-' + prog['flat']
            if proto:
                sig += '/on-' + proto
        if proto == 'deepcopy':
            msg = '[on copy.deepcopy(model), the model itself alive and untouched] ' + msg
        res['violations'].append({'kind': kind, 'sig': sig, 'msg': f'{mode} a={a} w={w} {_shape_sig(prog)}: {msg}', 'case': dict(base_case, only=cur[0])})

    from plinio.cost import params_bit, ops_bit
    record = {}
    spec = {'params_bit': params_bit, 'ops_bit': ops_bit, 'probe': _probe_spec(record), 'count_in': _count_spec('in'), 'count_out': _count_spec('out')}
    kw = {'cost': spec}
    if mode == 'channel':
        from plinio.methods.mps import MPSType
        kw['w_search_type'] = MPSType.PER_CHANNEL
    try:
        nas, x = make(prog, a, w, seed, **kw)
        info, model = _orig_shapes(prog, seed)
    except Exception as e:
        res.update(states=1, evals=1)
        add('conversion-raises', 'conversion-raises/' + mode, f'{type(e).__name__}: {str(e)[:200]}')
        res['outcomes'] = sorted(res['outcomes'])
        return res
    sels = GM.selectors(nas)
    only = case.get('only')
    if proto == 'deepcopy':
        # the assignments are realised on deep copies; the converted model `orig` stays alive and is not touched after the copies
        # were taken (the softmax options of a copy are those the model had when it was copied: they rotate per case, not per state)
        if only is not None and only.get('final'):
            only = None       # the end-of-exploration oracle replays the whole case
        orig = nas
        copies = {}
        rot = len(a) + 2 * len(w) + len(prog['stages'])
        orig_alpha0 = [m.alpha.detach().clone() for _, m in sels]

        def get_copy(train_hard):
            if train_hard not in copies:
                if train_hard:
                    orig.train()
                    orig.update_softmax_options(temperature=1.0, hard=True, gumbel=False, disable_sampling=False)
                else:
                    orig.eval()
                    orig.update_softmax_options(temperature=(1.0, 0.05, 20.0)[rot % 3], hard=False, gumbel=(rot // 3) % 2 == 1, disable_sampling=False)
                c = copy.deepcopy(orig)
                copies[train_hard] = (c, GM.selectors(c))
            return copies[train_hard]
    if mode == 'layer':
        sweep_quick = case.get('sweep') and tier == 'quick'
        assigns, complete, init = enum_assignments(sels, 0 if sweep_quick else b['complete_cap'], 1)
        todo = [{'assign': list(asg), 'train_hard': th} for asg in assigns for th in (False, True)]
        # exactly tied maxima (a uniform / all-zero initialisation is one): whichever alternative summary() reports must be the
        # single one the cost charges
        todo += [{'tie': t, 'train_hard': th} for t in range(3) for th in (False, True)]
    else:
        # per-channel selectors are matrices (P, C): enumerate every column pattern of one selector at a time
        todo = []
        mats = [(i, m) for i, (_, m) in enumerate(sels) if m.alpha.dim() == 2]
        vecs = [(i, m) for i, (_, m) in enumerate(sels) if m.alpha.dim() == 1]
        for bi, base in enumerate(('init', 'rot')):
            for (i, m) in mats:
                P, C = m.alpha.shape
                cols = list(itertools.product(range(P), repeat=C))
                if len(cols) > (81 if tier == 'quick' else 625):
                    # one-channel deviations from every uniform pattern + rotations
                    cols = []
                    for u in range(P):
                        cols.append(tuple([u] * C))
                        for c in range(C):
                            for v in range(P):
                                t = [u] * C
                                t[c] = v
                                cols.append(tuple(t))
                    cols += [tuple((u + c) % P for c in range(C)) for u in range(P)]
                    cols = list(dict.fromkeys(cols))
                for col in cols:
                    todo.append({'base': base, 'sel': i, 'cols': list(col), 'train_hard': (sum(col) + bi) % 2 == 1})
    for label in todo:
        if only is not None and only != label:
            continue
        cur[0] = label
        if proto == 'deepcopy':
            nas, sels = get_copy(label['train_hard'])
        with torch.no_grad():
            if mode == 'layer' and 'tie' in label:
                for _, m in sels:
                    n = m.alpha.shape[0]
                    t = torch.zeros(n)
                    if label['tie'] == 1 and n > 2:
                        t[0] = -1.0             # tie among all but the first
                    elif label['tie'] == 2:
                        t += 0.3
                        if n > 2:
                            t[1:n - 1] = -0.5   # tie between the first and the last
                    m.alpha.copy_(t)
                moved = 1
            elif mode == 'layer':
                set_assignment(sels, label['assign'], 0, via=res['states'])
                moved = sum(1 for p, q in zip(label['assign'], init) if p != q)
            else:
                for i, (_, m) in enumerate(sels):
                    if m.alpha.dim() == 1:
                        n = m.alpha.shape[0]
                        m.alpha.copy_(_reps(n, (n - 1) if label['base'] == 'init' else 0)[0])
                    else:
                        P, C = m.alpha.shape
                        if i == label['sel']:
                            cols = label['cols']
                        else:
                            cols = [P - 1] * C if label['base'] == 'init' else [(c + 1) % P for c in range(C)]
                        m.alpha.copy_(torch.stack([_reps(P, cols[c])[c % 3] for c in range(C)], dim=1))
                moved = 1
        if proto == 'deepcopy':
            nas.train(label['train_hard'])
        elif label['train_hard']:
            nas.train()
            nas.update_softmax_options(temperature=1.0, hard=True, gumbel=False, disable_sampling=False)
        else:
            # eval mode: temperature / gumbel must be irrelevant (arg-max selection) - rotate them through the enumeration
            nas.eval()
            k = res['states']
            nas.update_softmax_options(temperature=(1.0, 0.05, 20.0)[k % 3], hard=False, gumbel=(k // 3) % 2 == 1, disable_sampling=False)
        res['states'] += 1
        res['transitions'] += moved
        res['evals'] += 1
        try:
            with torch.no_grad():
                nas(x)
                pl = _check(nas, x, prog, info, model, record, spec, label, add, mode == 'channel' and 0 in w)
        except Exception as e:
            import traceback
            add('cost-raises', 'cost-raises/' + mode, f'{label}: {type(e).__name__}: {str(e)[:200]} {traceback.format_exc()[-300:]}')
            continue
        res['outcomes'].add('checked')
        res['nontrivial'].append(_key(prog, a, w, mode + ('/' + proto if proto else ''), label))
    if proto == 'deepcopy' and only is None:
        # the model the copies were taken from: coefficients untouched, and it still prices its own assignment exactly
        cur[0] = {'final': True}
        res['states'] += 1
        res['evals'] += 1
        osels = GM.selectors(orig)
        moved = [n for (n, m), a0 in zip(osels, orig_alpha0) if not torch.equal(m.alpha.detach(), a0)]
        if moved:
            add('other-model-changed', 'other-model-changed/alpha', f'exploring the deep copies changed the coefficients of the model they were copied from: {moved[:3]}')
        try:
            orig.eval()
            with torch.no_grad():
                orig(x)
                _check(orig, x, prog, info, model, record, spec, 'the model the copies were taken from, after their exploration', add, mode == 'channel' and 0 in w)
        except Exception as e:
            add('cost-raises', 'cost-raises/' + mode, f'the model the copies were taken from: {type(e).__name__}: {str(e)[:200]}')
    res['outcomes'] = sorted(res['outcomes'])
    res['sample'] = {'mode': mode, 'prog': prog, 'a': a, 'w': w, 'selectors': [n for n, _ in sels], 'n_configs': len(todo), 'last': todo[-1] if todo else None}
    if proto:
        res['sample']['proto'] = proto
    return res


def _key(prog, a, w, mode, label):
    import hashlib
    import json
    return hashlib.sha1(json.dumps([prog, a, w, mode, label], sort_keys=True).encode()).hexdigest()[:16]


def _shape_sig(prog):
    ops = '+'.join(s['op'] + ('-dw' if s.get('dw') else '') + ('-bn' if s.get('bn') else '') for s in prog['stages'])
    return f"{ops}/{prog['head']}" + (f"/flat={prog['flat']}" if prog.get('flat') else '')
