"""C02 - MPS export is bit-identical to the eval-mode mixed-precision model (per-layer weight search).

Configuration-lattice explorer over G_mps: programs x precision tuples x arg-max assignment of every selector
(complete when small, otherwise every assignment within d moves of the initial one + the "all at position i" corners)
x option tuples (temperature, gumbel, hard - irrelevant in eval mode, which is what is being checked).
Oracle: torch.equal(MPS.eval()(x), export().eval()(x)); every exported Quant* layer carries the in / weight / out
bit-widths summary() reports; along the dataflow of the exported graph (own walker) consumer.in_quantizer IS
producer.out_quantizer and the reported in_precision equals the producer's out_precision.
"""
import itertools

import torch
import torch.nn as nn

from ..grammar import mps as GM
from ..grammar import net2d as G2
from .c10 import _reps

PID = 'C02'
RULE = ('programs: G_mps (conv / conv-BN / depthwise / residual add / skip add / pooling, 3 heads) up to the depth bound + single-option deviations; '
        'precision tuples: all 15 ordered selections from {2,4,8} for activations x weights on depth-1 programs, (2,4,8) / (8,4,2) / (4,8) beyond; '
        'arg-max assignments: complete product over the unique selectors when <= cap, else all assignments within 2 moves + uniform corners; '
        'options: T in {0.05,1,20} x gumbel x hard on the initial and one rotated assignment; non-trivial = an assignment with at least one '
        'selector moved away from its initial arg-max or a non-default precision tuple; quantizers configured through the quantization info '
        '(asymmetric weight quantizer, PACT initial clip value) on the depth-1 programs; summary() is read twice per state - right after the '
        'coefficients were written (before any forward / export) and after the export - and both readings must agree with the exported layers')
ASSUMPTIONS = ['PER_LAYER weight search only (scope of the statement)', '"on every input" decided on a seeded witness batch inside the input quantizer range [0,1)',
               'arg-max abstraction A2: coefficients realised by tie-free representatives with gaps >= 0.05']


def bounds(tier):
    return {'quick': {'G_depth': 2, 'complete_cap': 27, 'moves_beyond': 1, 'tuple_sweep': 'depth-1 programs with the flatten head, assignments within 1 move + corners'},
            'thorough': {'G_depth': 3, 'complete_cap': 729, 'moves_beyond': 2, 'tuple_sweep': 'all depth-1 programs, complete assignments'}}[tier]


def cases(tier, seed):
    out = []
    allp = GM.precision_tuples()
    for p in GM.gen(1, with_opts=False):
        for a in allp:
            for w in allp:
                if tier == 'quick' and p['head'] != 'flatlin':
                    continue
                out.append({'prog': p, 'a': list(a), 'w': list(w), 'tier': tier, 'sweep': True})
    for p in GM.gen_fcn(1 if tier == 'quick' else 2):
        for a, w in (((2, 4, 8), (2, 4, 8)), ((8, 4), (4, 2, 8))):
            out.append({'prog': p, 'a': list(a), 'w': list(w), 'tier': tier})
    # the same grammar built from Conv1d / BatchNorm1d / 1D pooling (MPSConv1d / QuantConv1d are separate implementations)
    for p in GM.gen(2) + GM.gen_fcn(1):
        for a, w in (((2, 4, 8), (2, 4, 8)), ((8, 4), (4, 2, 8))):
            if tier == 'quick' and (a, w) != ((2, 4, 8), (2, 4, 8)) and len(p['stages']) > 1:
                continue
            out.append({'prog': dict(p, dim=1, size=8), 'a': list(a), 'w': list(w), 'tier': tier})
    # a layer invoked at two call sites (weight sharing), same / different resolution
    for p in GM.gen_twice():
        for a, w in (((2, 4, 8), (2, 4, 8)), ((8, 4), (4, 2, 8))):
            out.append({'prog': p, 'a': list(a), 'w': list(w), 'tier': tier})
    # networks with two inputs (joined by a sum, by a sum of convs, by a concat)
    for join in ('sum', 'convsum', 'cat'):
        for st in ([{'op': 'conv'}], [{'op': 'conv'}, {'op': 'skipadd'}], [{'op': 'conv', 'dw': True}, {'op': 'conv', 'k': 1}]):
            for a, w in (((2, 4, 8), (2, 4, 8)), ((8, 4), (4, 2, 8))):
                out.append({'prog': {'cin': 3, 'size': 6, 'two_in': join, 'stages': [dict(s) for s in st], 'head': 'flatlin'},
                            'a': list(a), 'w': list(w), 'tier': tier})
    for p in GM.gen(2 if tier == 'quick' else 3):
        for a, w in (((2, 4, 8), (2, 4, 8)), ((8, 4, 2), (4, 8)), ((4, 8), (8, 2, 4))):
            if len(p['stages']) == 1 and not any(k in s for s in p['stages'] for k in ('bias', 'k', 's', 'act', 'cout')) and not p.get('head_bn'):
                continue
            out.append({'prog': p, 'a': list(a), 'w': list(w), 'tier': tier})
    # quantizers configured through the quantization info: depth-1 programs (+ depth 2 in the thorough tier), residual and depthwise included
    for p in GM.gen(1 if tier == 'quick' else 2):
        for q in QCFG:
            for a, w in (((2, 4, 8), (2, 4, 8)), ((8, 4), (4, 2, 8))):
                out.append({'prog': p, 'a': list(a), 'w': list(w), 'tier': tier, 'qcfg': q, 'sweep': True})
    return out


QCFG = {'w-asym': ('weight', {'symmetric': False}), 'out-clip3': ('output', {'init_clip_val': 3.0})}


def make(prog, a, w, seed, qcfg=None, **kw):
    from plinio.methods.mps import MPS, get_default_qinfo
    model, x = G2.build(prog, seed)
    qinfo = get_default_qinfo(w_precision=tuple(w), a_precision=tuple(a))
    if qcfg:      # quantizers configured through the quantization info (keyword arguments of the quantizer classes)
        role, kwargs = QCFG[qcfg]
        qinfo['layer_default'][role]['kwargs'] = dict(qinfo['layer_default'][role].get('kwargs', {}), **kwargs)
    nas = MPS(model, qinfo=qinfo, **G2.shape_args(prog, x), **kw)
    return nas, x


def _producer(node, mods):
    """walk back from a consumer through ops that do not re-quantize until a module that owns an out_quantizer"""
    cur = node.args[0] if node.args else None
    hops = 0
    while cur is not None and hops < 50:
        hops += 1
        if not hasattr(cur, 'op'):
            return None
        if cur.op == 'call_module':
            m = mods[str(cur.target)]
            if hasattr(m, 'out_quantizer'):
                return str(cur.target), m
        if cur.op == 'placeholder':
            return None
        if not cur.args:
            return None
        cur = cur.args[0]
    return None


def check_export(nas, x, exp, summ=None, when=''):
    """-> list of (kind, msg); summ: a summary() taken by the caller at another moment (default: now)"""
    bad = []
    if summ is None:
        summ = nas.summary()
    mods = dict(exp.named_modules())
    for lname, s in summ.items():
        e = mods.get(lname)
        if e is None:
            bad.append(('exported-layer-missing', lname))
            continue
        for role, attr in (('in_precision', 'in_quantizer'), ('w_precision', 'w_quantizer'), ('out_precision', 'out_quantizer')):
            if role in s and hasattr(e, attr):
                q = getattr(e, attr)
                if hasattr(q, 'precision') and int(q.precision) != int(s[role]):
                    bad.append(('precision-differs-from-summary', f'{lname}.{attr}.precision={int(q.precision)} but summary{when} {role}={s[role]}'))
    sites = {}
    for n in exp.graph.nodes:
        if n.op == 'call_module':
            sites[str(n.target)] = sites.get(str(n.target), 0) + 1
    for n in exp.graph.nodes:
        if n.op != 'call_module':
            continue
        m = mods[str(n.target)]
        if not hasattr(m, 'in_quantizer'):
            continue
        pr = _producer(n, mods)
        if pr is None:
            continue
        pname, pm = pr
        # a module invoked at several call sites has ONE input-quantizer slot (finding D35): reported under its own kind
        rep = '@layer-invoked-at-several-call-sites' if sites[str(n.target)] > 1 else ''
        if m.in_quantizer is not pm.out_quantizer:
            bad.append(('in-quantizer-not-producers-out' + rep, f'{n.target}.in_quantizer is not {pname}.out_quantizer'))
            if rep:
                continue
        if str(n.target) in summ and pname in summ and 'out_precision' in summ[pname]:
            if summ[str(n.target)]['in_precision'] != summ[pname]['out_precision']:
                bad.append(('in-precision-not-producers-out', f'summary: {n.target}.in_precision={summ[str(n.target)]["in_precision"]} '
                                                               f'but producer {pname}.out_precision={summ[pname]["out_precision"]}'))
    return bad


def set_assignment(sels, assign, rep=0, via=0):
    """via: 0 in-place copy under no_grad, 1 `.data` re-assignment, 2 copy into `.data` (no version-counter bump)"""
    with torch.no_grad():
        for (name, m), pos in zip(sels, assign):
            t = _reps(m.alpha.shape[0], pos)[rep % 3]
            if via % 3 == 0:
                m.alpha.copy_(t)
            elif via % 3 == 1:
                m.alpha.data = t.clone()
            else:
                m.alpha.data.copy_(t)


def enum_assignments(sels, cap, moves):
    sizes = [m.alpha.shape[0] for _, m in sels]
    init = tuple(int(torch.argmax(m.alpha.detach())) for _, m in sels)
    total = 1
    for s in sizes:
        total *= s
    if not sizes:
        return [()], True, ()
    if total <= cap:
        return [tuple(a) for a in itertools.product(*[range(s) for s in sizes])], True, init
    out = [init]
    for d in range(1, moves + 1):
        for idxs in itertools.combinations(range(len(sels)), d):
            for vals in itertools.product(*[[v for v in range(sizes[i]) if v != init[i]] for i in idxs]):
                a = list(init)
                for i, v in zip(idxs, vals):
                    a[i] = v
                out.append(tuple(a))
    for pos in range(max(sizes)):
        out.append(tuple(min(pos, s - 1) for s in sizes))
        out.append(tuple((pos + i) % s for i, s in enumerate(sizes)))
    return list(dict.fromkeys(out)), False, init


def run_case(case, seed):
    prog, a, w = case['prog'], case['a'], case['w']
    tier = case.get('tier', 'quick')
    b = bounds(tier)
    res = {'states': 0, 'transitions': 0, 'evals': 0, 'nontrivial': [], 'outcomes': set(), 'violations': []}
    base_case = {k: v for k, v in case.items() if k != 'only'}
    ssig = _shape_sig(prog) + (f"/qinfo={case['qcfg']}" if case.get('qcfg') else '')

    def add(kind, sig, msg, label):
        res['outcomes'].add(kind)
        res['violations'].append({'kind': kind, 'sig': sig, 'msg': msg, 'case': dict(base_case, only=label)})

    try:
        nas, x = make(prog, a, w, seed, qcfg=case.get('qcfg'))
    except Exception as e:
        res.update(states=1, evals=1)
        add('conversion-raises', 'conversion-raises/' + ssig, f'MPS() raised {type(e).__name__}: {str(e)[:200]}', None)
        res['outcomes'] = sorted(res['outcomes'])
        return res
    nas.eval()
    sels = GM.selectors(nas)
    sweep_quick = case.get('sweep') and tier == 'quick'
    assigns, complete, init = enum_assignments(sels, 0 if sweep_quick else b['complete_cap'], 1 if sweep_quick else b['moves_beyond'])
    extra_opts = [(T, g, h) for T in (0.05, 1.0, 20.0) for g in (False, True) for h in (False, True) if (T, g, h) != (1.0, False, False)]
    if sweep_quick or (tier == 'quick' and (a, w) != ([2, 4, 8], [2, 4, 8])):
        extra_opts = []
    only = case.get('only')
    todo = []
    for asg in assigns:
        todo.append((asg, (1.0, False, False), 0))
    rot = tuple((p + 1) % m.alpha.shape[0] for p, (_, m) in zip(init, sels))
    for o in extra_opts:
        todo.append((init, o, 1))
        todo.append((rot, o, 2))
    for asg, (T, g, h), rep in todo:
        label = {'assign': list(asg), 'opts': [T, g, h], 'rep': rep}
        if only is not None and only != label:
            continue
        nas.update_softmax_options(temperature=T, hard=h, gumbel=g, disable_sampling=False)
        set_assignment(sels, asg, rep, via=res['states'])
        # what summary() reports right after the coefficients were written - before any forward or export - is compared with the export too
        try:
            summ_pre = nas.summary()
        except Exception:
            summ_pre = None
        res['states'] += 1
        res['transitions'] += sum(1 for p, q in zip(asg, init) if p != q) + (0 if (T, g, h) == (1.0, False, False) else 1)
        res['evals'] += 1
        try:
            with torch.no_grad():
                # the order of "evaluate" and "export" must not matter: alternate it (an export that relied on coefficients
                # sampled by a previous forward would show when it comes first)
                if res['states'] % 2 == 0:
                    exp = nas.export()
                    y = G2.call(nas, x)
                else:
                    y = G2.call(nas, x)
                    exp = nas.export()
                exp.eval()
                nas.eval()
                ye = G2.call(exp, x)
        except Exception as e:
            add('export-or-run-raises', 'export-or-run-raises/' + ssig, f'{label}: {type(e).__name__}: {str(e)[:200]}', label)
            continue
        if y.shape != ye.shape or not torch.equal(y, ye):
            d = float((y - ye).abs().max()) if y.shape == ye.shape else 'shape'
            sig = 'output-not-bit-identical/' + ssig
            # causal attribution to finding D35: a layer invoked at several call sites whose (single) input-quantizer slot holds its
            # own output quantizer scales its bias with the coefficients sampled by the PREVIOUS forward; if a second forward of the
            # MPS model - nothing else changed - agrees with the exported network, the mismatch is that stale first forward
            ncalls = {}
            for nd in exp.graph.nodes:
                if nd.op == 'call_module':
                    ncalls[str(nd.target)] = ncalls.get(str(nd.target), 0) + 1
            if any(v > 1 and hasattr(exp.get_submodule(k), 'in_quantizer') for k, v in ncalls.items()):
                with torch.no_grad():
                    y2 = G2.call(nas, x)
                if y2.shape == ye.shape and torch.equal(y2, ye):
                    sig = 'output-not-bit-identical/first-forward-after-coefficient-change@layer-invoked-at-several-call-sites'
            add('output-not-bit-identical', sig,
                f'a={a} w={w} {label}: MPS.eval()(x) and export().eval()(x) differ (max|diff|={d})', label)
        bad = check_export(nas, x, exp)
        if summ_pre is not None and not bad:
            bad = [b_ for b_ in check_export(nas, x, exp, summ=summ_pre, when=' (read right after the coefficients were written, before any forward)')
                   if b_[0] == 'precision-differs-from-summary']
        for kind, msg in bad[:3]:
            add(kind, kind if '@' in kind else f'{kind}/' + ssig, f'a={a} w={w} {label}: {msg}', label)
        if not bad:
            res['outcomes'].add('identical')
        if asg != init or (a, w) != ([2, 4, 8], [2, 4, 8]):
            res['nontrivial'].append(_key(prog, a, w, label))
    res['outcomes'] = sorted(res['outcomes'])
    res['sample'] = {'prog': prog, 'a': a, 'w': w, 'selectors': [n for n, _ in sels], 'n_assignments': len(assigns), 'complete': complete,
                     'option_tuples': 1 + len(extra_opts)}
    return res


def _key(prog, a, w, label):
    import hashlib
    import json
    return hashlib.sha1(json.dumps([prog, a, w, label], sort_keys=True).encode()).hexdigest()[:16]


def _shape_sig(prog):
    ops = '+'.join(sorted({s['op'] + ('-dw' if s.get('dw') else '') + ('-bn' if s.get('bn') else '') for s in prog['stages']}))
    return f"{ops}/{prog['head']}" + (f"/two-in-{prog['two_in']}" if prog.get('two_in') else '') + ('/1d' if prog.get('dim') == 1 else '')
