"""C17 - a checkpointed search resumes to an observationally identical model.

History explorer with a CRASH POINT AT EVERY STATE.  Alphabet: SGD step on the network parameters, SGD step on the
architectural parameters (seeded data), update_softmax_options(temperature | hard | gumbel), discrete_cost := T/F, train(),
eval(), set-representative-coefficients.  At every reached state: sd = deepcopy(state_dict()); a fresh wrapper of the same
seed network is built with the same constructor arguments, load_state_dict(sd, strict) and both models are observed:
keys, seeded forward, every cost, summary(), exported network output; then one more identical training step and the same
observations again (state that only matters later).  The load is first attempted with strict=True (as the property states it: it must not
raise), then tolerantly so that keys and observations are still compared.  Besides the grammar-built models, one seed network per method
keeps its layers under attribute names that any string-based treatment of the keys trips over (fixtures.AdvNamesNet / AdvNamesSN).
A mismatch is attributed CAUSALLY to an option that lives outside the state_dict by re-applying the post-construction option
changes of the history to the restored wrapper: the smallest set of options whose re-application removes the mismatch is the
signature; if none does, it is an unattributed violation.
"""
import copy
import itertools

import torch

from .. import fixtures as F
from .. import history as H

PID = 'C17'
RULE = ('BFS over all operation sequences up to the depth bound over {step_net, step_nas, option changes, discrete_cost, train, eval, set coefficients, '
        'observe (= cost + summary + export, the logging calls of a search)} '
        'on PIT (1D with BN, 2D), MPS per-layer / per-channel and SuperNet (soft, Gumbel) models + one seed network per method whose layers sit under '
        'ordinary-but-adversarial attribute names (feature_module, module, submodule.conv, ModuleDict key "module", seed, seed_alpha, _exported_bn, alpha, '
        'choice_module; quick: first letter in {step_nas, observe, none}, thorough: every first letter for PIT / SuperNet, five for MPS); in EVERY reached state a checkpoint is taken and '
        'restored into a freshly constructed wrapper (same constructor arguments, same caller-visible train/eval mode; load_state_dict(strict=True) must not '
        'raise, then no missing / unexpected keys) and the two are compared on '
        'keys, seeded forward, all costs, summary, export output, and again after one more identical training step; '
        'non-trivial = a state reached by a history with at least one optimizer step or option change')
ASSUMPTIONS = ['the fresh wrapper gets the constructor arguments of the original and its train()/eval() mode (mode is caller state in PyTorch); options changed '
               'after construction are NOT re-applied by the harness - if they influence the observations and are not in the state_dict that is a finding',
               'requires_grad flags are caller state: the continuation step updates the same named parameters in both models',
               'the harness owns the RNG (re-seeds before every forward / step)',
               'the state after `observe` (cost + summary + export in the CURRENT mode) is checkpointed and compared in that same mode: the harness calls no '
               'train()/eval() on the original between the export and the comparison (only the fresh wrapper is put in the mode of the original)',
               'violations seen on an adversarially named seed network are signed <sig>/adversarial-attribute-names (except option-outside-state-dict, which is '
               'the same finding whatever the layers are called)']


def bounds(tier):
    return {'quick': {'depth': 3, 'adversarially_named_seeds': [list(m[:2]) for m in ADV_MODELS], 'their_first_letters': [str(f) for f in ADV_FIRST_QUICK]},
            'thorough': {'depth': 5, 'adversarially_named_seeds': [list(m[:2]) for m in ADV_MODELS], 'their_first_letters': 'all (PIT, SuperNet); MPS: ' + ', '.join(map(str, ADV_FIRST_THOROUGH_MPS))}}[tier]


MODELS = [('pit', 'pit1d', {}), ('pit', 'pit2d', {}), ('pit', 'pit1d_flatcat', {}), ('mps', 'mps_a', {}), ('mps', 'mps_b', {'per_channel': True}),
          ('mps', 'mps_b', {'per_channel': True, 'w0': True}),     # per-channel search with the 0-bit (pruning) alternative
          ('sn', 'sn_a', {}), ('sn', 'sn_gumbel', {})]


# seed networks whose layers sit under ordinary-but-adversarial attribute names (fixtures.AdvNamesNet / AdvNamesSN: 'feature_module', 'module',
# 'submodule.conv', ModuleDict key 'module', 'seed', 'seed_alpha', '_exported_bn', 'alpha', 'choice_module'): a checkpoint is a map from PATHS to
# tensors, nothing in the round trip may treat the keys as strings
ADV_MODELS = [('pit', 'adv_names', {}), ('mps', 'adv_names', {}), ('sn', 'adv_names_sn', {})]
ADV_FIRST_QUICK = ['step_nas', 'observe', None]
ADV_FIRST_THOROUGH_MPS = ['step_nas', 'step_net', 'observe', 'gumbel=1', None]
ADV_TAG = 'adversarial-attribute-names'


def _is_adv(case):
    return case['model'] in F.ADV_MODELS.get(case['method'], {})


def cases(tier, seed):
    out = [{'fam': 'saved', 'method': 'mps', 'model': 'mps_a', 'kw': {}, 'tier': tier},
           {'fam': 'saved', 'method': 'mps', 'model': 'mps_b', 'kw': {'per_channel': True}, 'tier': tier},
           {'fam': 'saved', 'method': 'mps', 'model': 'mps_a', 'kw': {'per_channel': True}, 'tier': tier}]
    for method, name, kw in MODELS:
        for first in _alphabet(method) + [None]:
            out.append({'method': method, 'model': name, 'kw': kw, 'first': first, 'tier': tier})
    # the adversarially named seeds: every first letter in the thorough tier, a rotation of three (a NAS step, the logging calls, the
    # initial state alone) in the quick tier
    for method, name, kw in ADV_MODELS:
        firsts = ADV_FIRST_QUICK
        if tier == 'thorough':
            # (a depth-5 case of the 7-layer MPS seed costs ~25 CPU-minutes: five first letters there, all of them for PIT and SuperNet)
            firsts = ADV_FIRST_THOROUGH_MPS if method == 'mps' else _alphabet(method) + [None]
        for first in firsts:
            out.append({'method': method, 'model': name, 'kw': kw, 'first': first, 'tier': tier})
    return out


def _alphabet(method):
    # 'observe' = the logging calls made during a search (cost, summary(), export()) - they must not alter what a checkpoint holds
    base = ['step_net', 'step_nas', 'train', 'eval', 'setcoef', 'observe']
    if method == 'pit':
        return base + ['disc=1']
    if method == 'mps':
        return base + ['temp=0.5', 'hard=1', 'gumbel=1']
    return base + ['temp=0.5', 'hard=1']


def _make(case, seed):
    from plinio.cost import params, ops, params_bit, ops_bit
    method = case['method']
    kw = dict(case['kw'])
    if kw.pop('per_channel', False):
        from plinio.methods.mps import MPSType
        kw['w_search_type'] = MPSType.PER_CHANNEL
    if kw.pop('w0', False):
        from plinio.methods.mps import get_default_qinfo
        kw['qinfo'] = get_default_qinfo(w_precision=(0, 2, 4, 8), a_precision=(4, 8))
    spec = {'a': params_bit, 'b': ops_bit} if method == 'mps' else {'a': params, 'b': ops}
    if _is_adv(case):
        nas, x, _ = F.make_adv(method, case['model'], seed, train=True, cost=spec, **kw)
    else:
        nas, x, _ = F.make(method, case['model'], seed, train=True, cost=spec, **kw)
    nas.train()
    nas._verif_no_export = bool(case['kw'].get('per_channel', False))   # (plain python attribute of the harness, not library state)
    return nas, x


def _step(nas, x, which, k):
    """one SGD step (lr 0.05) on the net or on the NAS parameters, seeded"""
    ps = list(nas.net_parameters()) if which == 'net' else list(nas.nas_parameters())
    for p in nas.parameters():
        p.grad = None
    torch.manual_seed(500 + k)
    # (the regulariser of the search evaluates metric 'b' first, the observations read 'a' first: nothing may depend on that order)
    y = nas(x)
    cb = nas.get_cost('b')
    loss = torch.tanh(y).sum() * 0.1 + 1e-3 * (nas.get_cost('a') + 1e-2 * cb)
    grads = torch.autograd.grad(loss, [p for p in ps if p.requires_grad], allow_unused=True)
    with torch.no_grad():
        for p, g in zip([p for p in ps if p.requires_grad], grads):
            if g is not None:
                p -= 0.05 * g


def _setcoef(nas, method):
    """a representative, tie-free coefficient assignment (deterministic)"""
    with torch.no_grad():
        for i, p in enumerate(nas.nas_parameters()):
            if p.requires_grad or method == 'sn':
                base = torch.arange(p.numel(), dtype=torch.float32).reshape(p.shape)
                p.copy_(((base * 0.37 + 0.11 * (i + 1)) % 1.0) + 0.05)


def _apply(nas, x, op, method, k, opts):
    if op == 'step_net':
        _step(nas, x, 'net', k)
    elif op == 'step_nas':
        _step(nas, x, 'nas', k)
    elif op == 'train':
        nas.train()
    elif op == 'eval':
        nas.eval()
    elif op == 'setcoef':
        _setcoef(nas, method)
    elif op == 'observe':
        with torch.no_grad():
            nas.get_cost('a')
            nas.get_cost('b')
        nas.summary()
        if not getattr(nas, '_verif_no_export', False):
            nas.export()
    elif op == 'disc=1':
        nas.discrete_cost = True
        opts['disc'] = True
    elif op.startswith('temp='):
        nas.update_softmax_options(temperature=float(op.split('=')[1]))
        opts['temp'] = float(op.split('=')[1])
    elif op == 'hard=1':
        nas.update_softmax_options(hard=True)
        opts['hard'] = True
    elif op == 'gumbel=1':
        nas.update_softmax_options(gumbel=True)
        opts['gumbel'] = True
    elif op == 'dis=1':
        # "use the saved coefficients": with sampling disabled the usual forward does not re-sample, so the sampled coefficients
        # themselves must come from the checkpoint
        nas.update_softmax_options(disable_sampling=True)
        opts['dis'] = True
    else:
        raise ValueError(op)


def _reapply(nas, opts, keys):
    for k in keys:
        if k == 'disc':
            nas.discrete_cost = opts[k]
        elif k == 'temp':
            nas.update_softmax_options(temperature=opts[k])
        elif k == 'hard':
            nas.update_softmax_options(hard=opts[k])
        elif k == 'gumbel':
            nas.update_softmax_options(gumbel=opts[k])
        elif k == 'dis':
            nas.update_softmax_options(disable_sampling=opts[k])


def _observe(nas, x, trainable_names, with_export=True):
    obs = {}
    torch.manual_seed(777)
    y = nas(x)
    obs['out'] = F.tensor_hash(y)
    with torch.no_grad():
        obs['cost'] = [F.canon(float(nas.get_cost('a'))), F.canon(float(nas.get_cost('b')))]
    torch.manual_seed(778)
    obs['summary'] = F.canon(nas.summary())
    if with_export:
        e = nas.export()
        saved = [(m, m.training) for m in nas.modules()]
        with torch.no_grad():
            e.eval()
            obs['export'] = (F.structure(e), F.tensor_hash(e(x)))
        for m, t in saved:
            m.training = t
    # continue the search with one more identical step on the same named parameters
    named = dict(nas.named_parameters())
    ps = [named[n] for n in trainable_names if n in named]
    torch.manual_seed(779)
    loss = torch.tanh(nas(x)).sum() * 0.1 + 1e-3 * (nas.get_cost('a') + 1e-2 * nas.get_cost('b'))
    grads = torch.autograd.grad(loss, ps, allow_unused=True)
    with torch.no_grad():
        for p, g in zip(ps, grads):
            if g is not None:
                p -= 0.05 * g
    torch.manual_seed(780)
    y2 = nas(x)
    obs['out_after_step'] = F.tensor_hash(y2)
    with torch.no_grad():
        obs['cost_after_step'] = [F.canon(float(nas.get_cost('a'))), F.canon(float(nas.get_cost('b')))]
    obs['sd_after_step'] = F.sd_hash(nas)
    return obs


def _restore(case, seed, sd, training, strict_err=None):
    """strict_err: optional list; when given, the checkpoint is first loaded the way the property states it (strict=True) and an exception of
    that load is appended to it (the tolerant load below then goes on, so that the keys and the observations are still compared)"""
    fresh, x = _make(case, seed)
    if strict_err is not None:
        try:
            fresh.load_state_dict(copy.deepcopy(sd), strict=True)
        except Exception as e:
            strict_err.append(e)
    res = fresh.load_state_dict(sd, strict=False)
    fresh.train(training)
    return fresh, list(res.missing_keys), list(res.unexpected_keys)


SAVED_HISTS = [(), ('step_nas',), ('step_nas', 'step_nas'), ('setcoef',), ('step_net', 'step_nas'), ('setcoef', 'step_nas', 'step_net'),
               ('temp=0.5', 'step_nas'), ('hard=1', 'step_nas')]


def _run_saved(case, seed):
    """"Use the saved coefficients": after a history the model is put in the documented fine-tuning configuration
    (update_softmax_options(disable_sampling=True)), checkpointed and restored into a fresh wrapper on which the harness re-applies that
    one option (it is an explicit part of the scenario, not something the checkpoint is expected to carry).  With sampling disabled the
    usual forward does not re-sample, so the sampled coefficients themselves must come from the checkpoint (they are registered buffers).
    No backward pass is made in this family."""
    method = case['method']
    res = {'states': 0, 'transitions': 0, 'evals': 0, 'nontrivial': [], 'outcomes': set(), 'violations': []}
    base_case = {k: v for k, v in case.items() if k != 'only'}
    only = case.get('only')
    for hist in SAVED_HISTS:
        for mode in ('train', 'eval'):
            label = {'history': list(hist), 'mode': mode}
            if only is not None and only != label:
                continue
            nas, x = _make(case, seed)
            opts = {}
            for k, op in enumerate(hist):
                _apply(nas, x, op, method, k, opts)
            nas.train(mode == 'train')
            with torch.no_grad():
                torch.manual_seed(31)
                nas(x)
            nas.update_softmax_options(disable_sampling=True)
            sd = copy.deepcopy(nas.state_dict())
            fresh, missing, unexpected = _restore(case, seed, sd, nas.training)
            _reapply(fresh, opts, sorted(opts))          # this family is about the coefficients only: post-construction options are re-applied
            fresh.update_softmax_options(disable_sampling=True)
            res['states'] += 1
            res['transitions'] += len(hist) + 1
            res['evals'] += 1
            res['nontrivial'].append(f'saved/{case["model"]}/{hist}/{mode}')
            obs = []
            for m in (nas, fresh):
                with torch.no_grad():
                    torch.manual_seed(32)
                    y = m(x)
                    obs.append({'out': F.tensor_hash(y), 'cost': [F.canon(float(m.get_cost('a'))), F.canon(float(m.get_cost('b')))],
                                'summary': F.canon(m.summary()), 'sampled': F.canon(m.nas_parameters_summary(post_sampling=True))})
            diffs = [k for k in obs[0] if obs[0][k] != obs[1][k]]
            if missing or unexpected:
                diffs.append('keys')
            if diffs:
                res['outcomes'].add('differs')
                res['violations'].append({'kind': 'saved-coefficients-not-restored', 'sig': f'saved-coefficients-not-restored/{method}/' + '+'.join(sorted(diffs)),
                                          'msg': f'{case["model"]}: history {list(hist)}, {mode} mode, sampling disabled, checkpoint -> fresh wrapper (+ same options): '
                                                 f'differs in {diffs}: ' + '; '.join(f'{k}: {str(obs[0].get(k))[:70]} vs {str(obs[1].get(k))[:70]}' for k in diffs[:2]),
                                          'case': dict(base_case, only=label)})
            else:
                res['outcomes'].add('identical')
    res['outcomes'] = sorted(res['outcomes'])
    res['sample'] = {'family': 'saved coefficients (disable_sampling)', 'model': case['model'], 'histories': [list(h) for h in SAVED_HISTS]}
    return res


def run_case(case, seed):
    if case.get('fam') == 'saved':
        return _run_saved(case, seed)
    tier = case.get('tier', 'quick')
    depth = bounds(tier)['depth']
    method = case['method']
    base_case = {k: v for k, v in case.items() if k != 'history'}
    nontrivial = set()
    evals = [0]
    first = case.get('first')
    # per-channel MPS export is documented as unsupported (MPS README; C02 is scoped to per-layer search): not observed there
    wexp = not case['kw'].get('per_channel', False)
    adv = _is_adv(case)

    def run(hist):
        viol = []

        def add(kind, sig, msg):
            if adv and kind != 'option-outside-state-dict':
                # (an option that lives outside the state_dict is the same finding whatever the layers are called; everything else is signed
                # by the structure that was needed to see it)
                sig = f'{sig}/{ADV_TAG}'
            viol.append({'kind': kind, 'sig': sig, 'msg': f'{case["model"]}: checkpoint after history {list(hist)}: {msg}',
                         'case': dict(base_case, history=list(hist))})

        nas, x = _make(case, seed)
        opts = {}
        try:
            for k, op in enumerate(hist):
                _apply(nas, x, op, method, k, opts)
        except Exception as e:
            add('operation-raises', f'operation-raises/{method}/{hist[-1]}', f'{type(e).__name__}: {str(e)[:200]}')
            return {'key': ('raise',) + tuple(hist), 'violations': viol, 'outcome': 'raises'}
        sd = copy.deepcopy(nas.state_dict())
        key = (F.sd_hash(nas), nas.training, tuple(sorted(opts.items())))
        trainable = [n for n, p in nas.named_parameters() if p.requires_grad]
        training = nas.training
        evals[0] += 1
        if any(op not in ('train', 'eval') for op in hist):
            nontrivial.add(f'{method}:{case["model"]}/' + '.'.join(hist) if adv else f'{case["model"]}/' + '.'.join(hist))
        try:
            strict_err = []
            fresh, missing, unexpected = _restore(case, seed, sd, training, strict_err)
            if strict_err:
                e = strict_err[0]
                add('strict-load-raises', f'strict-load-raises/{method}', 'load_state_dict(state_dict(), strict=True) into a freshly constructed wrapper of the same '
                    f'seed network raises {type(e).__name__}: {" ".join(str(e).split())[:260]}')
            if missing or unexpected:
                add('state-dict-keys', f'state-dict-keys/{method}', f'missing={missing[:3]} unexpected={unexpected[:3]}')
            o1 = _observe(nas, x, trainable, wexp)
            o2 = _observe(fresh, x, trainable, wexp)
        except Exception as e:
            import traceback
            add('restore-raises', f'restore-raises/{method}', f'{type(e).__name__}: {str(e)[:200]} {traceback.format_exc()[-300:]}')
            return {'key': key, 'violations': viol, 'outcome': 'raises'}
        diffs = [k for k in o1 if o1[k] != o2[k]]
        if diffs:
            # causal attribution: smallest set of post-construction option changes whose re-application removes the mismatch
            blame = None
            for r in range(1, len(opts) + 1):
                for keys in itertools.combinations(sorted(opts), r):
                    nas2, _ = _make(case, seed)
                    o = {}
                    for k, op in enumerate(hist):
                        _apply(nas2, x, op, method, k, o)
                    fresh2, _, _ = _restore(case, seed, sd, training)
                    _reapply(fresh2, opts, keys)
                    if _observe(nas2, x, trainable, wexp) == _observe(fresh2, x, trainable, wexp):
                        blame = keys
                        break
                if blame:
                    break
            detail = '; '.join(f'{k}: {str(o1[k])[:60]} vs restored {str(o2[k])[:60]}' for k in diffs[:3])
            if blame:
                add('option-outside-state-dict', f'option-outside-state-dict/{method}/' + '+'.join(blame),
                    f'restored model differs in {diffs} ({detail}); re-applying option(s) {list(blame)}={[opts[b] for b in blame]} to the restored wrapper removes the difference')
            else:
                add('resume-differs', f'resume-differs/{method}/' + '+'.join(sorted(diffs)), f'restored model differs in {diffs}: {detail}')
        return {'key': key, 'violations': viol, 'outcome': 'differs' if viol else 'identical'}

    alpha = _alphabet(method)

    def alphabet(hist):
        if not hist:
            return [first] if first is not None else []
        return alpha

    only = tuple(case['history']) if case.get('history') is not None else None
    r = H.bfs(run, alphabet, depth, only=only)
    return {'states': r['states'], 'transitions': r['transitions'], 'evals': evals[0], 'nontrivial': sorted(nontrivial),
            'outcomes': list(r['outcomes']), 'violations': r['violations'],
            'sample': {'model': case['model'], 'first_op': first, 'alphabet': alpha, 'closed': r['closed'], 'depth_reached': r['depth_reached'],
                       'executions': r['executions'], 'histories_reaching_new_states': r.get('sample_histories')}}
