"""C19 - regularizers are non-negative penalties that vanish when constraints hold.

Lattice + schedule sweep (bounded exhaustive, no sampling).  A configuration is
    (model, number of metrics n, assignment A in {below, at, above}^n, strengths, target type, n_epochs)
and for every configuration a FRESH regularizer is driven through the history a training loop produces: first call at
the first epoch on the model in assignment A (this is the call that lazily derives the strengths from task_loss), then
every epoch 0..n_epochs.  At every schedule point (epoch, n_epochs) the real `DUCCIO` is evaluated on

  main      the model in assignment A (real models: two NAS-parameter states; targets are placed relative to state S0)
  probe_i   one metric at a time: metric i above its target (1.5 x target), all others below -> effective strength
            of metric i = value / excess;  probe2_i: the same with a larger excess (strict growth in isolation)
  edge_i    assignment A with the cost of metric i raised by one step (excess-step edge of the lattice)

and compared with the reference model `duccio_ref` below, which is written from the statement / README, not from the
implementation.  The gradient is observed per metric (d value / d cost_i) through a pass-through observer that records
the very cost tensors the regularizer obtained from `get_cost`.

Where the statement and the code could be read differently the reading is fixed here and counted in the evidence
(see ASSUMPTIONS): "half the schedule" is the real number n_epochs/2.
"""
import itertools
import math

PID = 'C19'
RULE = ('for every model (stub with leaf-tensor costs; real PIT pit2d and MPS mps_a with dict costs, two NAS-parameter states each) x n = 1..3 '
        'named metrics x ALL 3^n assignments of {below, at, above} target x strengths (every tuple over {1e-3, 2.0}^n given as tensors [real models: '
        'the two constant tuples], or derived from task_loss with the first call on the assignment itself / on an all-above model) x targets given '
        'as tensors / python floats x every n_epochs of the tier x EVERY epoch 0..n_epochs: a fresh DUCCIO is called in training-loop order and '
        'its value and per-metric gradient are compared with the reference (finite, >= 0, == 0 iff all costs <= target, == sum eff_i x excess_i), '
        'the effective strength of every metric is recovered one metric at a time (value / excess) and checked (1% of final at epoch 0, non-decreasing '
        'along every epoch -> epoch+1 edge, == final for every epoch >= n_epochs/2, never above final), and every excess-step edge (one cost raised '
        'by 0.25 x target) is checked (value does not decrease; increases when that metric ends above target); BaseRegularizer: every model x '
        'assignment x cost name x strength: value == strength x cost, gradient == strength through the named cost only; '
        'non-trivial = a schedule point of a configuration with at least one metric above its target')
ASSUMPTIONS = [
    '"reaches the final strength at half the schedule" is read with real division: effective strength == final for every integer epoch with '
    '2*epoch >= n_epochs (for odd n_epochs the first such epoch is (n_epochs+1)/2; at epoch n_epochs//2 the strength is still below final - '
    'counted as outcome info:odd-n_epochs/... and written to the samples); the integer-division reading contradicts the 1% clause at n_epochs=1',
    'the final strength is the one the regularizer applies when epoch / n_epochs are left unspecified (README); given strengths are positive '
    'tensors (the documented type) - float32 for the value grid, plus integer-valued strengths as int64 / int32 / float64 tensors; derived strengths are expected to be task_loss/(cost-target) of the first call for metrics above target then '
    '(docstring / README Eq. 13); a metric whose derived strength is 0 (below target at the first call) does not meet the precondition '
    '"positive final strengths": only finite / non-negative / zero-when-all-hold is asserted for it',
    'between 1% and 100% the ramp is linear in the epoch (README: "linearly increased at each epoch")',
    'stub costs and targets are exactly representable in float32 (cost = 0.5 / 1 / 1.5 x target), real-model targets are 2 / 1 / 0.5 x the observed '
    'cost, so "at target" is an exact tie; comparisons with the float64 reference use a relative tolerance of 1e-5 (float32 round-off only), '
    'zero is compared exactly',
    'strict growth along an excess-step edge is demanded on the full assignment only when the reference increase is resolvable in float32 next to '
    'the other metrics\' terms (>= 1e-5 of the value); it is always demanded in isolation (probe2)',
    'real-model costs are deterministic between calls (asserted by the harness); real models are called directly for the value (state S0, incl. the '
    'first call that derives the strengths) and through a pass-through observer (returns the same tensor objects; values must be identical) for '
    'the per-metric gradient; probes / edges on real models offset the real cost tensor by a constant',
    'quick tier: real models use the n_epochs of the tier up to 10 and 1..2 metrics, the stub with 3 metrics alternates the target type with the '
    'strengths tuple (see bounds); the thorough tier has no such reduction except MPS with 1..2 metrics and real-model strengths as in RULE',
]

RTOL = 1e-5
NAMES = ('a', 'b', 'c')
STUB_T = {'a': 64.0, 'b': 20000.0, 'c': 4.0e6}          # exactly representable, realistic spread (activations / params / ops)
LV = {'below': 0.5, 'at': 1.0, 'above': 1.5}             # stub: cost = LV x target
REAL_TF = {'below': 2.0, 'at': 1.0, 'above': 0.5}        # real: target = REAL_TF x observed cost
LEVELS = ('below', 'at', 'above')
LETTER = {'below': 'L', 'at': 'E', 'above': 'H'}           # key letters: Lower / Equal / Higher than target
STEP = 0.25                                              # excess-step edge: cost_i += STEP x target_i
GIVEN = (1e-3, 2.0)
QUICK_NE = (1, 2, 3, 4, 5, 7, 10, 50)
BASE_STRENGTHS = (None, 1e-3, 2.0, 0.25)                 # None = constructor default

D17_SIG = 'non-finite/derived-strength/cost-equals-target-at-first-call'
TIE_SIG = 'gradient/nonzero-through-metric-exactly-at-target'


# ----------------------------------------------------------------------------------------------
# reference model (statement + README; plain python float64)
# ----------------------------------------------------------------------------------------------
def ramp_ref(epoch, n_epochs):
    """fraction of the final strength in force at `epoch`: 1% at epoch 0, linear, 100% from half the schedule on"""
    half = n_epochs / 2.0
    if epoch >= half:
        return 1.0
    return 0.01 + 0.99 * (epoch / half)


def duccio_ref(costs, targets, finals, epoch=None, n_epochs=None):
    """-> (value, per-metric d value/d cost) ; epoch None = no schedule (final strengths)"""
    r = 1.0 if epoch is None else ramp_ref(epoch, n_epochs)
    val = 0.0
    grad = {}
    for k in targets:
        exc = costs[k] - targets[k]
        if exc > 0:
            val += finals[k] * r * exc
            grad[k] = finals[k] * r
        else:
            grad[k] = 0.0
    return val, grad


def base_ref(cost, strength):
    return strength * cost


def close(a, b, rtol=RTOL):
    if not (math.isfinite(a) and math.isfinite(b)):
        return False
    return abs(a - b) <= rtol * max(abs(a), abs(b))


# ----------------------------------------------------------------------------------------------
# models
# ----------------------------------------------------------------------------------------------
class _Stub:
    """the smallest thing a regularizer can be applied to: named scalar costs as leaf tensors"""

    def __init__(self, costs):
        import torch
        self.c = {k: torch.tensor(float(v), dtype=torch.float32, requires_grad=True) for k, v in costs.items()}

    def get_cost(self, name=None):
        if name is None:
            name = next(iter(self.c))
        return self.c[name]

    @property
    def cost(self):
        return self.get_cost(None)


class _Shifted:
    """a (real) model whose named costs are offset by constants; offset 0 returns the real tensor untouched"""

    def __init__(self, inner, off):
        self.inner = inner
        self.off = off

    def get_cost(self, name=None):
        c = self.inner.get_cost(name)
        o = self.off.get(name, 0.0)
        return c + o if o != 0.0 else c

    @property
    def cost(self):
        return self.get_cost(None)


class _Obs:
    """pass-through observer: records the cost tensors handed to the regularizer (same objects)"""

    def __init__(self, inner):
        self.inner = inner
        self.seen = []

    def get_cost(self, name=None):
        c = self.inner.get_cost(name)
        self.seen.append((name, c))
        return c

    @property
    def cost(self):
        return self.get_cost(None)


class _StubSubject:
    kind = 'stub'
    real = False

    def __init__(self, names):
        self.names = names

    def setup(self, A):
        T = {k: STUB_T[k] for k in self.names}
        costs = {k: LV[a] * T[k] for k, a in zip(self.names, A)}
        return T, _Stub(costs), costs, []

    def variant(self, costs):
        return _Stub(costs)


_REAL_CACHE = {}


def _real_specs(model):
    from plinio.cost import params, ops, ops_no_bias, params_bit, ops_bit
    if model == 'pit2d':
        return 'pit', {'a': params, 'b': ops, 'c': ops_no_bias}
    if model == 'mps_a':
        return 'mps', {'a': params_bit, 'b': ops_bit}
    raise ValueError(model)


def _build_real(model, seed):
    """two instances of the same network in two NAS-parameter states (S0: lower cost, S1: higher cost), forward done"""
    key = (model, seed)
    if key in _REAL_CACHE:
        return _REAL_CACHE[key]
    import torch
    from .. import core
    from .. import fixtures as F
    method, spec = _real_specs(model)
    out = []
    for state in (0, 1):
        core.seed_all(seed)
        nas, x, _ = F.make(method, model, seed, train=True, cost=dict(spec))
        with torch.no_grad():
            for n, p in nas.named_nas_parameters():
                if not (n.endswith('alpha') and p.requires_grad and p.numel() > 1):
                    continue
                if method == 'pit' and state == 0:
                    p.data[0] = 0.0                      # S0: one channel of every searchable layer pruned
                if method == 'mps' and state == 1:
                    p.data[-1] += 1.5                    # S1: every selector leans to the highest precision
        core.seed_all(seed)
        nas(x)
        c1 = {k: float(nas.get_cost(k).detach()) for k in spec}
        c2 = {k: float(nas.get_cost(k).detach()) for k in spec}
        if c1 != c2:
            raise RuntimeError(f'harness: cost of {model} not deterministic between calls: {c1} vs {c2}')
        out.append((nas, c1))
    if out[0][1] == out[1][1]:
        raise RuntimeError(f'harness: the two NAS states of {model} have the same costs')
    _REAL_CACHE[key] = out
    return out


class _RealSubject:
    real = True

    def __init__(self, model, names, seed):
        self.kind = model
        self.names = names
        (self.m0, self.c0), (self.m1, self.c1) = _build_real(model, seed)

    def setup(self, A):
        import torch
        # targets relative to the observed S0 costs; x2 / x1 / x0.5 are exact in float32
        T = {k: float(torch.tensor(REAL_TF[a] * self.c0[k], dtype=torch.float32)) for k, a in zip(self.names, A)}
        costs = {k: self.c0[k] for k in self.names}
        return T, self.m0, costs, [('S1', self.m1, {k: self.c1[k] for k in self.names})]

    def variant(self, costs):
        return _Shifted(self.m0, {k: costs[k] - self.c0[k] for k in costs})


# ----------------------------------------------------------------------------------------------
# enumeration
# ----------------------------------------------------------------------------------------------
def _chunks(ne_list, cap):
    out, cur, pts = [], [], 0
    for n in ne_list:
        if cur and pts + n + 1 > cap:
            out.append(cur)
            cur, pts = [], 0
        cur.append(n)
        pts += n + 1
    if cur:
        out.append(cur)
    return out


def _tier(tier):
    if tier == 'quick':
        # real models: the same set without n_epochs = 50 (every epoch of each); stub with 3 metrics: target type alternates with the strengths
        return {'ne': list(QUICK_NE), 'real_ne': [n for n in QUICK_NE if n <= 10], 'task_loss': [0.7], 'real_task_loss': [0.7],
                'real_n': {'pit2d': 2, 'mps_a': 2}, 'stub_cap': 10 ** 9, 'real_cap': {'pit2d': 10 ** 9, 'mps_a': 10 ** 9},
                'parts': {'pit2d': 3, 'mps_a': 3}, 'tt3': 'alternate', 'stub_cap3': 60}
    return {'ne': list(range(1, 51)), 'real_ne': list(range(1, 51)), 'task_loss': [0.7, 12.0], 'real_task_loss': [0.7],
            'real_n': {'pit2d': 3, 'mps_a': 2}, 'stub_cap': 340, 'real_cap': {'pit2d': 340, 'mps_a': 230},
            'parts': {'pit2d': 3, 'mps_a': 3}, 'tt3': 'both', 'stub_cap3': 340}


def bounds(tier):
    t = _tier(tier)
    return {'n_epochs_stub': t['ne'] if tier == 'quick' else '1..50', 'n_epochs_real': t['real_ne'] if tier == 'quick' else '1..50',
            'epochs': 'every epoch 0..n_epochs', 'schedule_points_per_configuration': {'stub': sum(n + 1 for n in t['ne']),
                                                                                       'real': sum(n + 1 for n in t['real_ne'])},
            'metrics': '1..3 (stub), 1..%d (pit2d), 1..%d (mps_a)' % (t['real_n']['pit2d'], t['real_n']['mps_a']),
            'assignments': 'all 3^n of {below, at, above}', 'given_strengths': 'stub: all of {1e-3, 2.0}^n; real: (1e-3,)*n and (2.0,)*n',
            'derived_strengths': {'task_loss_stub': t['task_loss'], 'task_loss_real': t['real_task_loss'],
                                  'first_call': 'on the assignment itself; stub also on an all-above model'},
            'target_types': 'stub: tensor and python float' + (' (3 metrics: alternating with the strengths)' if t['tt3'] == 'alternate' else '')
                            + '; pit2d: python float; mps_a: tensor',
            'real_model_states': 2, 'excess_step': '0.25 x target', 'base_regularizer_strengths': ['default' if s is None else s for s in BASE_STRENGTHS]}


def cases(tier, seed):
    t = _tier(tier)
    out = []
    for m in ('stub', 'pit2d', 'mps_a'):
        out.append({'kind': 'base', 'model': m})
    # stub DUCCIO
    for n in (1, 2, 3):
        modes = [{'kind': 'given', 'f': list(f)} for f in itertools.product(GIVEN, repeat=n)]
        for tl in t['task_loss']:
            modes.append({'kind': 'derived', 'first': 'self', 'task_loss': tl})
            modes.append({'kind': 'derived', 'first': 'allabove', 'task_loss': tl})
        if n <= 2:      # strengths are tensors of ANY dtype: integer-valued strengths given as integer / double tensors
            for ft in ('int64', 'int32', 'float64'):
                modes.append({'kind': 'given', 'f': [2, 1][:n], 'ftype': ft})
        for i, mode in enumerate(modes):
            tts = ('tensor', 'float')
            if n == 3 and t['tt3'] == 'alternate':
                tts = (tts[i % 2],)
            for tt in tts:
                for ch in _chunks(t['ne'], t['stub_cap'] if n < 3 else t['stub_cap3']):
                    out.append({'kind': 'duccio', 'model': 'stub', 'n': n, 'mode': mode, 'tt': tt, 'ne': ch})
    # extra families on the stub (see _run_extra)
    x_ne = [1, 2, 3, 4, 5, 7] if tier == 'quick' else list(range(1, 13))
    for n in (1, 2):
        for f in itertools.product(GIVEN, repeat=n):
            for tt in ('tensor', 'float'):
                out.append({'kind': 'extra', 'fam': 'shared-instance', 'n': n, 'tt': tt, 'ne': x_ne, 'mode': {'kind': 'given', 'f': list(f)}})
    for n in (2, 3):
        frees = [c for r in range(1, n) for c in itertools.combinations(range(n), r)]
        for mode in ([{'kind': 'given', 'f': [GIVEN[i % 2] for i in range(n)]}, {'kind': 'given', 'f': [2.0] * n}]
                     + [{'kind': 'derived', 'first': 'self', 'task_loss': t['task_loss'][0]}]):
            for tt in ('tensor', 'float'):
                out.append({'kind': 'extra', 'fam': 'infinite-target', 'n': n, 'tt': tt, 'mode': mode, 'free': [list(c) for c in frees]})
    # real DUCCIO
    for m, tt in (('pit2d', 'float'), ('mps_a', 'tensor')):
        for n in range(1, t['real_n'][m] + 1):
            modes = [{'kind': 'given', 'f': [g] * n} for g in GIVEN]
            for tl in t['real_task_loss']:
                modes.append({'kind': 'derived', 'first': 'self', 'task_loss': tl})
            nparts = t['parts'][m] if n >= 2 else 1
            for mode in modes:
                for ch in _chunks(t['real_ne'], t['real_cap'][m]):
                    for k in range(nparts):
                        c = {'kind': 'duccio', 'model': m, 'n': n, 'mode': mode, 'tt': tt, 'ne': ch}
                        if nparts > 1:
                            c['part'] = [k, nparts]
                        out.append(c)
    return out


def _mode_key(mode):
    if mode['kind'] == 'given':
        return 'G' + ','.join('%g' % f for f in mode['f']) + ('/' + mode['ftype'] if mode.get('ftype') else '')
    return 'D%s%g' % (mode['first'], mode['task_loss'])


# ----------------------------------------------------------------------------------------------
# execution helpers
# ----------------------------------------------------------------------------------------------
class _Ctx:
    def __init__(self, case):
        self.case = {k: v for k, v in case.items() if k != 'only'}
        self.states = self.transitions = self.evals = 0
        self.nontrivial = set()
        self.outcomes = set()
        self.viols = []
        self._dedupe = set()
        self.suppressed = 0

    def violation(self, kind, sig, msg, only):
        key = (sig, tuple(only.get('A', ())), only.get('name'))
        if key in self._dedupe:              # one representative per (signature, assignment) and case
            self.suppressed += 1
            return
        self._dedupe.add(key)
        self.viols.append({'kind': kind, 'sig': sig, 'msg': msg, 'case': dict(self.case, only=only)})

    def result(self, sample=None):
        r = {'states': self.states, 'transitions': self.transitions, 'evals': self.evals, 'nontrivial': sorted(self.nontrivial),
             'outcomes': sorted(self.outcomes), 'violations': self.viols}
        if sample is not None:
            r['sample'] = sample
        return r


def _call(reg, model, sched, want_grad):
    """evaluate reg on model through the observer -> (value, costs seen, per-metric gradient or None, raw tensor)"""
    import torch
    obs = _Obs(model)
    v = reg(obs) if sched is None else reg(obs, sched[0], sched[1])
    last = {}
    for name, c in obs.seen:
        last[name] = c
    costs = {k: float(c.detach()) for k, c in last.items()}
    g = None
    if want_grad:
        g = {k: 0.0 for k in last}
        ts = [(k, c) for k, c in last.items() if c.requires_grad]
        if ts and v.requires_grad:
            gs = torch.autograd.grad(v, [c for _, c in ts], retain_graph=True, allow_unused=True)
            for (k, _), gi in zip(ts, gs):
                g[k] = 0.0 if gi is None else float(gi)
    return float(v.detach()), costs, g, v


def _stage(e, ne):
    if e == 0:
        return 'epoch0'
    return 'final' if 2 * e >= ne else 'ramping'


# ----------------------------------------------------------------------------------------------
# BaseRegularizer
# ----------------------------------------------------------------------------------------------
def _run_base(case, seed):
    from plinio.regularizers import BaseRegularizer
    ctx = _Ctx(case)
    only = case.get('only')
    model = case['model']
    subjects = []
    if model == 'stub':
        for n in (1, 2, 3):
            for A in itertools.product(LEVELS, repeat=n):
                costs = {k: LV[a] * STUB_T[k] for k, a in zip(NAMES[:n], A)}
                costs['params'] = 1234.0           # the constructor's default cost name
                subjects.append((f'stub/{"".join(LETTER[a] for a in A)}', _Stub(costs), costs, False))
    else:
        for tag, (nas, costs) in zip(('S0', 'S1'), _build_real(model, seed)):
            subjects.append((f'{model}/{tag}', nas, dict(costs), True))
    sample = None
    for tag, m, costs, real in subjects:
        for name in costs:
            for s in BASE_STRENGTHS:
                for style in ('positional', 'keyword'):
                    if s is None and style == 'keyword':
                        continue
                    o = {'tag': tag, 'name': name, 's': s, 'style': style}
                    if only is not None and only != o:
                        continue
                    if s is None:
                        reg = BaseRegularizer() if name == 'params' else BaseRegularizer(name)
                        sv = 1e-3
                    elif style == 'positional':
                        reg = BaseRegularizer(name, s)
                        sv = s
                    else:
                        reg = BaseRegularizer(cost_name=name, strength=s)
                        sv = s
                    ctx.states += 1
                    exp = base_ref(costs[name], sv)
                    vals = []
                    if real:                                   # the documented call, directly on the DNAS model
                        vals.append(float(reg(m).detach()))
                        ctx.evals += 1
                    v, seen, g, raw = _call(reg, m, None, True)
                    ctx.evals += 1
                    vals.append(v)
                    v2, _, _, _ = _call(reg, m, None, False)     # a later schedule position: the regularizer is stateless
                    ctx.evals += 1
                    ctx.transitions += 1
                    vals.append(v2)
                    ctx.outcomes.add('base:' + ('default-strength' if s is None else 'strength-given'))
                    if raw.numel() != 1:
                        ctx.violation('base-regularizer', 'base/not-a-scalar', f'{tag} {name}: shape {tuple(raw.shape)}', o)
                    if list(seen) != [name]:
                        ctx.violation('base-regularizer', 'base/reads-another-cost', f'{tag}: BaseRegularizer({name!r}) read the costs {list(seen)}', o)
                    for vv in vals:
                        if not close(vv, exp) and not (vv == 0.0 and exp == 0.0):
                            ctx.violation('base-regularizer', 'base/value-differs-from-strength-x-cost',
                                          f'{tag}: BaseRegularizer({name!r}, {s}) returned {vv!r}, strength x cost = {sv} x {costs[name]} = {exp!r}', o)
                            break
                    if not close(g.get(name, 0.0), sv):
                        ctx.violation('base-regularizer', 'base/gradient-differs-from-strength',
                                      f'{tag}: d value / d cost[{name}] = {g.get(name)!r}, strength = {sv}', o)
                    if sample is None:
                        sample = {'regularizer': 'BaseRegularizer', 'model': tag, 'cost_name': name, 'strength': sv, 'cost': costs[name],
                                  'value': v, 'reference': exp, 'd value/d cost': g.get(name)}
    # informational: the documented type of final_strengths is a tuple of tensors; python floats are recorded, not judged
    if model == 'stub' and only is None:
        from plinio.regularizers import DUCCIO
        try:
            DUCCIO({'a': 64.0}, final_strengths=(2.0,))(_Stub({'a': 96.0}), 1, 10)
            ctx.outcomes.add('info:python-float-final_strengths:accepted')
        except (TypeError, AttributeError):
            ctx.outcomes.add('info:python-float-final_strengths:rejected')
    return ctx.result(sample)


# ----------------------------------------------------------------------------------------------
# DUCCIO
# ----------------------------------------------------------------------------------------------
def _mk_reg(names, T, mode, tt):
    import torch
    from plinio.regularizers import DUCCIO
    targets = {k: (torch.tensor(T[k], dtype=torch.float32) if tt == 'tensor' else float(T[k])) for k in names}
    if mode['kind'] == 'given':
        dt = {'int64': torch.int64, 'int32': torch.int32, 'float64': torch.float64}.get(mode.get('ftype'), torch.float32)
        fs = tuple(torch.tensor(f, dtype=dt) for f in mode['f'])
        return DUCCIO(targets, final_strengths=fs), {k: float(f) for k, f in zip(names, fs)}, None
    tl = torch.tensor(mode['task_loss'], dtype=torch.float32)
    return DUCCIO(targets, task_loss=tl), None, float(tl)


def _run_duccio(case, seed):
    ctx = _Ctx(case)
    only = case.get('only')
    model, n, mode, tt = case['model'], case['n'], case['mode'], case['tt']
    names = NAMES[:n]
    subj = _StubSubject(names) if model == 'stub' else _RealSubject(model, names, seed)
    mkey = _mode_key(mode)
    derived = mode['kind'] == 'derived'
    assignments = list(itertools.product(LEVELS, repeat=n))
    if only is not None:
        assignments = [tuple(only['A'])]
        ne_list = [only['ne']]
    else:
        ne_list = case['ne']
        if case.get('part'):
            k, m = case['part']
            assignments = [A for i, A in enumerate(assignments) if (i + i // 3) % m == k]
    sample, best = None, None
    for A in assignments:
        akey = ''.join(LETTER[a] for a in A)
        for ne in ne_list:
            if only is not None and only.get('e') is not None:
                epochs = list(range(max(0, only['e'] - 1), min(ne, only['e'] + 1) + 1))
            else:
                epochs = list(range(ne + 1))
            s = _run_config(ctx, subj, names, A, akey, mode, mkey, derived, tt, ne, epochs)
            if s is not None:
                score = (int('above' in A and bool(s['final_strengths'])), int(ne in (3, 5, 7)))
                if sample is None or score > best:
                    sample, best = s, score
    return ctx.result(sample)


def _run_config(ctx, subj, names, A, akey, mode, mkey, derived, tt, ne, epochs):
    """one fresh regularizer driven through one schedule; returns a written-out sample or None"""
    T, base, base_costs, extras = subj.setup(A)
    reg, finals, task_loss = _mk_reg(names, T, mode, tt)
    tag0 = f'{subj.kind} A={dict(zip(names, A))} targets={T} {mkey} targets-as-{tt} n_epochs={ne}'

    def o(e, **kw):
        d = {'A': list(A), 'ne': ne, 'e': e}
        d.update(kw)
        return d

    def mk_variant(costs):
        return subj.variant(costs)

    # ---------------- first call (derives the strengths when they were not given) ----------------
    e0 = epochs[0]
    if derived and mode['first'] == 'allabove':
        first_costs = {k: LV['above'] * T[k] for k in names}
        first_model = mk_variant(first_costs)
    else:
        first_costs = dict(base_costs)
        first_model = base
    g_first = None
    if subj.real and first_model is base:
        raw_first = reg(base, e0, ne)                          # exactly the documented call on the DNAS model
        v_first = float(raw_first.detach())
        first_diff = bool(raw_first.requires_grad)
    else:
        v_first, seen, g_first, raw_first = _call(reg, first_model, (e0, ne), True)
        first_costs = {k: seen[k] for k in names}
        first_diff = bool(raw_first.requires_grad)
    ctx.evals += 1
    # the FIRST call is an ordinary training step too (with task_loss it is the one that derives the strengths): its penalty must be
    # differentiable w.r.t. every cost in excess - a value computed under no_grad would silently contribute no gradient
    if math.isfinite(v_first) and v_first > 0.0 and not first_diff:
        ctx.violation('gradient', 'gradient/first-call-penalty-not-differentiable',
                      f'{tag0}: the first call (epoch {e0}, costs {first_costs}) returns {v_first!r} > 0 but the value is detached from the costs '
                      f'(requires_grad=False)', o(e0, first=True))
    d17_struct = derived and any(first_costs[k] == T[k] for k in names)
    dead = False                                              # strengths non-finite: nothing can be compared any more

    def nonfinite(v, what, e):
        """classify a non-finite value; the D17 signature is reserved for its structural condition"""
        if d17_struct:
            at = [k for k in names if first_costs[k] == T[k]]
            ctx.violation('non-finite', D17_SIG,
                          f'{tag0}: strengths derived from task_loss={task_loss} on a first call where cost == target exactly for {at} '
                          f'(costs {first_costs}); {what} at epoch {e} is {v!r} (task_loss/0 = inf, inf*0 = nan, for ever)', o(e))
            ctx.outcomes.add('non-finite:derived-strength-at-target')
        else:
            ctx.violation('non-finite', 'non-finite/' + ('derived-strength' if derived else 'given-strength') + '/no-metric-at-target-at-first-call',
                          f'{tag0}: {what} at epoch {e} is {v!r}', o(e))
            ctx.outcomes.add('non-finite:other')

    if not math.isfinite(v_first):
        nonfinite(v_first, 'value of the first call', e0)
        dead = True

    # ---------------- final strengths: what the regularizer applies without a schedule ----------------
    f = {}
    positive = {}
    if not dead:
        for k in names:
            pc = {j: (LV['above'] if j == k else LV['below']) * T[j] for j in names}
            v, seen, _, _ = _call(reg, mk_variant(pc), None, False)
            ctx.evals += 1
            if not math.isfinite(v):
                nonfinite(v, f'value without schedule (metric {k} alone above target)', None)
                dead = True
                break
            exc = seen[k] - T[k]
            fm = v / exc
            exp = None
            if not derived:
                exp = finals[k]
                sig = 'final-strength/default-call-differs-from-given'
            elif first_costs[k] > T[k]:
                exp = task_loss / (first_costs[k] - T[k])
                sig = 'final-strength/derived-differs-from-task_loss-over-excess'
            if exp is not None and not close(fm, exp):
                ctx.violation('final-strength', sig, f'{tag0}: metric {k}: called without epoch/n_epochs the strength is value/excess = {v!r}/{exc!r} = '
                              f'{fm!r}, expected {exp!r}', o(None, metric=k))
            f[k] = exp if exp is not None else fm
            positive[k] = f[k] > 0
            if derived and not positive[k]:
                ctx.outcomes.add('info:derived-strength-0/metric-not-above-target-at-first-call (outside "positive final strengths": a later '
                                 'excess of this metric is not penalised)')
    if g_first is not None and not dead:
        r0 = ramp_ref(e0, ne)
        for k in names:
            if first_costs[k] > T[k] and k in f and positive.get(k):
                want = f[k] * r0
                if not close(g_first.get(k, 0.0), want):
                    ctx.violation('gradient', 'gradient/first-call-wrong-through-metric-in-excess',
                                  f'{tag0}: first call at epoch {e0} (costs {first_costs}): d value / d cost[{k}] = {g_first.get(k)!r}, reference '
                                  f'final x ramp = {want!r}', o(e0, first=True, metric=k))
    sample = {'model': subj.kind, 'assignment': dict(zip(names, A)), 'targets': T, 'costs': base_costs, 'strengths': mkey, 'n_epochs': ne,
              'final_strengths': dict(f), 'value_by_epoch': [], 'effective/final strength of metric a by epoch': []}

    prev_main = {}
    prev_eff = {}
    for e in epochs:
        r = ramp_ref(e, ne)
        stage = _stage(e, ne)
        # ------------------------------ main points ------------------------------
        v_base = None
        for tag, m, costs in [('S0', base, base_costs)] + extras:
            ctx.states += 1
            above = [k for k in names if costs[k] > T[k]]
            if above:
                ctx.nontrivial.add(f'{subj.kind}/{tag}/{akey}/{mkey}/{tt}/ne{ne}')
            direct = subj.real and tag == 'S0'
            if direct:                                        # exactly the documented call on the DNAS model itself
                vd = float(reg(m, e, ne).detach())
                ctx.evals += 1
            v, seen, g, raw = _call(reg, m, (e, ne), not dead)
            ctx.evals += 1
            if tag == 'S0':
                v_base = v
            if not math.isfinite(v):
                nonfinite(v, f'value on state {tag} (costs {costs})', e)
                continue
            if dead:
                ctx.outcomes.add('info:finite-value-after-non-finite-strength')
                continue
            where = f'{tag0} state={tag} costs={costs} epoch={e}'
            if subj.real and ((direct and vd != v) or any(seen[k] != costs[k] for k in names)):
                ctx.violation('nondeterministic', 'real-model/direct-call-differs-from-observed-call',
                              f'{where}: direct call {vd if direct else None!r}, through the observer {v!r}, costs seen {seen}', o(e))
            if raw.numel() != 1:
                ctx.violation('value', 'value/not-a-scalar', f'{where}: shape {tuple(raw.shape)}', o(e))
            ref, gref = duccio_ref(costs, T, f, e, ne)
            if v < 0:
                ctx.violation('value', 'negative-penalty', f'{where}: value {v!r} < 0 (reference {ref!r})', o(e))
            pos_above = [k for k in above if positive[k]]
            if not above:
                ctx.outcomes.add('zero:all-constraints-hold')
                if v != 0.0:
                    ctx.violation('value', 'nonzero-although-every-cost-within-target', f'{where}: value {v!r}, every cost <= target', o(e))
            elif pos_above:
                ctx.outcomes.add(f'positive:{len(above)}-in-excess/{stage}')
                if not v > 0.0:
                    ctx.violation('value', 'zero-although-a-cost-exceeds-its-target', f'{where}: value {v!r}, metrics {pos_above} above target '
                                  f'with positive final strength', o(e))
            else:
                ctx.outcomes.add('info:only-zero-strength-metrics-in-excess (outside precondition)')
            if not close(v, ref) and not (v == 0.0 and ref == 0.0):
                ctx.violation('value', f'value-differs-from-reference/{stage}',
                              f'{where}: value {v!r}, reference sum(final x ramp x excess) = {ref!r} (ramp {r:.6g}, finals {f})', o(e))
            cap, _ = duccio_ref(costs, T, f, None, None)
            if v > cap * (1 + RTOL):
                ctx.violation('value', 'value-exceeds-final-strength-x-excess', f'{where}: value {v!r} > {cap!r}', o(e))
            for k in names:
                if close(g[k], gref[k]) or (g[k] == 0.0 and gref[k] == 0.0):
                    continue
                if costs[k] == T[k]:
                    # exactly at the target the hinge is not differentiable: any value in [0, strength] is a valid
                    # sub-gradient (torch.maximum gives one half) and the statement says nothing about it - not a violation
                    if 0.0 <= g[k] <= f[k] * r * (1 + RTOL):
                        ctx_note = True
                        continue
                    sig = TIE_SIG
                elif costs[k] < T[k]:
                    sig = 'gradient/nonzero-through-metric-below-target'
                else:
                    sig = f'gradient/wrong-through-metric-in-excess/{stage}'
                ctx.violation('gradient', sig, f'{where}: d value / d cost[{k}] = {g[k]!r}, reference {gref[k]!r} '
                              f'(cost {costs[k]!r}, target {T[k]!r}, effective strength {f[k] * r!r})', o(e))
            if tag in prev_main:
                ctx.transitions += 1
                if v < prev_main[tag] * (1 - RTOL):
                    ctx.violation('schedule', 'schedule/value-decreases-with-epoch',
                                  f'{where}: value {v!r} < {prev_main[tag]!r} at the previous epoch', o(e))
            prev_main[tag] = v
        sample['value_by_epoch'].append(v_base)
        if dead:
            continue
        ref_base, _ = duccio_ref(base_costs, T, f, e, ne)

        # ------------------------------ one metric at a time ------------------------------
        for k in names:
            pc = {j: (LV['above'] if j == k else LV['below']) * T[j] for j in names}
            v, seen, _, _ = _call(reg, mk_variant(pc), (e, ne), False)
            ctx.evals += 1
            pc2 = dict(pc)
            pc2[k] = (LV['above'] + STEP) * T[k]
            v2, seen2, _, _ = _call(reg, mk_variant(pc2), (e, ne), False)
            ctx.evals += 1
            ctx.transitions += 1
            where = f'{tag0} epoch={e} metric {k} alone above target (costs {seen})'
            if not (math.isfinite(v) and math.isfinite(v2)):
                nonfinite(v if not math.isfinite(v) else v2, f'value with metric {k} alone above target', e)
                continue
            if v < 0 or v2 < 0:
                ctx.violation('value', 'negative-penalty', f'{where}: value {v!r} / {v2!r}', o(e, metric=k))
            if not positive[k]:
                continue
            exc = seen[k] - T[k]
            eff = v / exc
            if k == names[0]:
                sample['effective/final strength of metric a by epoch'].append(round(eff / f[k], 6))
            if e == 0:
                ctx.outcomes.add('ramp:epoch0-is-1%')
                if not close(eff, 0.01 * f[k]):
                    ctx.violation('ramp', 'ramp/epoch0-not-1%-of-final', f'{where}: effective strength {eff!r}, 1% of final {f[k]!r} is {0.01 * f[k]!r}',
                                  o(e, metric=k))
            if 2 * e >= ne:
                ctx.outcomes.add('ramp:final-from-half-schedule')
                if not close(eff, f[k]):
                    ctx.violation('ramp', 'ramp/not-final-from-half-the-schedule-on',
                                  f'{where}: epoch {e} >= n_epochs/2 = {ne / 2}, effective strength {eff!r} != final {f[k]!r} (ratio {eff / f[k]:.6g})',
                                  o(e, metric=k))
            else:
                ctx.outcomes.add('ramp:rising')
                if e > 0 and not close(eff, f[k] * r):
                    ctx.violation('ramp', 'ramp/not-linear-between-1%-and-final',
                                  f'{where}: effective strength {eff!r}, linear ramp gives {f[k] * r!r} (final {f[k]!r})', o(e, metric=k))
                if ne % 2 == 1 and e == ne // 2 and eff < f[k] * (1 - RTOL):
                    ctx.outcomes.add('info:odd-n_epochs/at-epoch-n_epochs//2-strength-still-below-final (real-division reading of "half the schedule")')
            if eff > f[k] * (1 + RTOL):
                ctx.violation('ramp', 'ramp/exceeds-final-strength', f'{where}: effective strength {eff!r} > final {f[k]!r}', o(e, metric=k))
            if k in prev_eff:
                ctx.transitions += 1
                if eff < prev_eff[k] * (1 - RTOL):
                    ctx.violation('ramp', 'ramp/decreases-with-epoch', f'{where}: effective strength {eff!r} < {prev_eff[k]!r} at the previous epoch',
                                  o(e, metric=k))
            prev_eff[k] = eff
            # strict growth with the excess, in isolation
            if not v2 > v:
                ctx.violation('excess', 'excess/not-strictly-increasing-alone',
                              f'{where}: raising the cost to {seen2[k]!r} changes the value from {v!r} to {v2!r}', o(e, metric=k))
            exc2 = seen2[k] - T[k]
            if not close(v2, f[k] * r * exc2):
                ctx.violation('excess', f'value-differs-from-reference/{stage}',
                              f'{where}: with the cost raised to {seen2[k]!r} the value is {v2!r}, reference {f[k] * r * exc2!r}', o(e, metric=k))

        # ------------------------------ excess-step edges of the assignment ------------------------------
        for k in names:
            ec = dict(base_costs)
            ec[k] = base_costs[k] + STEP * T[k]
            v, seen, _, _ = _call(reg, mk_variant(ec), (e, ne), False)
            ctx.evals += 1
            ctx.transitions += 1
            where = f'{tag0} epoch={e} edge: cost[{k}] {base_costs[k]!r} -> {seen[k]!r} (others {base_costs})'
            if not math.isfinite(v):
                nonfinite(v, f'value after raising cost[{k}]', e)
                continue
            if not seen[k] > base_costs[k]:
                raise RuntimeError('harness: the excess step did not raise the cost')
            ref2, _ = duccio_ref(seen, T, f, e, ne)
            if v < v_base * (1 - RTOL):
                ctx.violation('excess', 'excess/value-decreases-when-a-cost-rises', f'{where}: value {v_base!r} -> {v!r}', o(e, metric=k))
            if not close(v, ref2) and not (v == 0.0 and ref2 == 0.0):
                ctx.violation('excess', f'value-differs-from-reference/{stage}', f'{where}: value {v!r}, reference {ref2!r}', o(e, metric=k))
            if seen[k] > T[k] and positive[k]:
                if ref2 - ref_base >= RTOL * ref2:
                    ctx.outcomes.add('edge:strict-growth')
                    if not v > v_base:
                        ctx.violation('excess', 'excess/not-strictly-increasing', f'{where}: value {v_base!r} -> {v!r}, reference '
                                      f'{ref_base!r} -> {ref2!r}', o(e, metric=k))
                else:
                    ctx.outcomes.add('info:edge-growth-below-float32-resolution-of-the-sum (strictness checked in isolation)')
            else:
                ctx.outcomes.add('edge:still-within-target' if seen[k] <= T[k] else 'edge:zero-strength')
    return sample


# ----------------------------------------------------------------------------------------------
# DUCCIO, extra families: one shared instance called in other orders than a training loop; unconstrained (infinite) targets
# ----------------------------------------------------------------------------------------------
def _orders(ne_list):
    """visiting orders of the schedule points (epoch, n_epochs) and of un-scheduled calls (None) on ONE regularizer instance"""
    pts = [(e, ne) for ne in ne_list for e in range(ne + 1)]
    transposed = sorted(pts, key=lambda p: (p[0], p[1]))                    # same epoch, growing schedule length
    descending = sorted(pts, key=lambda p: (-p[1], -p[0]))
    interleaved = []
    for i, p in enumerate(transposed):
        interleaved.append(p)
        if i % 3 == 0:
            interleaved.append(None)                                       # reg(model): the documented un-annealed call
    zigzag = []
    for e in range(max(ne_list) + 1):
        col = [p for p in pts if p[0] == e]
        zigzag += col if e % 2 == 0 else col[::-1]
    return {'transposed': transposed, 'descending': descending, 'interleaved-default': interleaved, 'zigzag': zigzag}


def _run_extra(case, seed):
    import torch
    ctx = _Ctx(case)
    only = case.get('only')
    n, tt, fam = case['n'], case['tt'], case['fam']
    names = NAMES[:n]
    subj = _StubSubject(names)
    sample = None
    if fam == 'shared-instance':
        mode = case['mode']
        mkey = _mode_key(mode)
        for A in itertools.product(LEVELS, repeat=n):
            if only is not None and tuple(only['A']) != A:
                continue
            T, base, base_costs, _ = subj.setup(A)
            for oname, order in _orders(case['ne']).items():
                if only is not None and only.get('order') != oname:
                    continue
                reg, finals, _ = _mk_reg(names, T, mode, tt)
                ctx.states += 1
                prev = None
                for pt in order:
                    v, seen, g, _ = _call(reg, base, pt, True)
                    ctx.transitions += 1
                    ctx.evals += 1
                    e, ne = pt if pt is not None else (None, None)
                    rv, rg = duccio_ref({k: seen[k] for k in names}, T, finals, e, ne)
                    ctx.nontrivial.add(f'X/{n}/{mkey}/{tt}/{"".join(LETTER[a] for a in A)}/{oname}/{pt}')
                    bad = (not math.isfinite(v)) or v < 0 or (not close(v, rv) and abs(v - rv) > 1e-9)
                    gbad = any(abs(g[k] - rg[k]) > RTOL * max(abs(rg[k]), 1e-12) for k in names if seen[k] != T[k])
                    if bad or gbad:
                        ctx.outcomes.add('value-depends-on-call-history')
                        ctx.violation('value', 'value/shared-instance-call-order',
                                      f'stub A={dict(zip(names, A))} targets={T} {mkey} targets-as-{tt}: one DUCCIO instance called in the order '
                                      f'"{oname}": the call {pt} right after the call {prev} returns {v!r} (gradient {g}) but strength x excess at that '
                                      f'schedule position is {rv!r} (gradient {rg}) - the value of a call depends on its own arguments only',
                                      {'A': list(A), 'order': oname})
                        break
                    prev = pt
                else:
                    ctx.outcomes.add('ok')
            sample = {'family': fam, 'assignment': dict(zip(names, A)), 'strengths': mkey, 'orders': list(_orders(case['ne'])), 'n_epochs': case['ne']}
        return ctx.result(sample)
    # ---- unconstrained metrics: target = +inf (the usual way to carry a metric along without constraining it) ----
    mode = case['mode']
    mkey = _mode_key(mode)
    for free in case['free']:
        for A in itertools.product(LEVELS, repeat=n):
            if only is not None and (tuple(only['A']) != A or only.get('free') != list(free)):
                continue
            T, base, base_costs, _ = subj.setup(A)
            T = {k: (float('inf') if i in free else T[k]) for i, k in enumerate(names)}
            reg, finals, task_loss = _mk_reg(names, T, mode, tt)
            ctx.states += 1
            constrained = [k for i, k in enumerate(names) if i not in free]
            for pt in [(0, 4), (1, 4), (2, 4), (4, 4), None, (3, 7)]:
                v, seen, g, _ = _call(reg, base, pt, True)
                ctx.transitions += 1
                ctx.evals += 1
                ctx.nontrivial.add(f'I/{n}/{mkey}/{tt}/{"".join(LETTER[a] for a in A)}/{free}/{pt}')
                holds = all(seen[k] <= T[k] for k in constrained)
                what = None
                if not math.isfinite(v) or v < 0:
                    what = f'returns {v!r}: not a finite non-negative value'
                elif holds and v != 0.0:
                    what = f'returns {v!r} although every constrained cost is at or below its target'
                elif not holds and not v > 0.0 and mode['kind'] == 'given':
                    what = f'returns {v!r} although {[k for k in constrained if seen[k] > T[k]]} exceed their targets'
                elif mode['kind'] == 'given':
                    e, ne = pt if pt is not None else (None, None)
                    rv, _ = duccio_ref({k: seen[k] for k in names}, T, finals, e, ne)
                    if not close(v, rv) and abs(v - rv) > 1e-9:
                        what = f'returns {v!r}, strength x excess over the constrained metrics is {rv!r}'
                if what is None and any(not math.isfinite(g[k]) for k in names):
                    what = f'has a non-finite gradient {g}'
                if what:
                    ctx.outcomes.add('unconstrained-metric-breaks-value')
                    ctx.violation('value', 'value/infinite-target',
                                  f'stub A={dict(zip(names, A))} targets={T} (metrics {[names[i] for i in free]} unconstrained: target +inf) {mkey} '
                                  f'targets-as-{tt}: the call {pt} {what}', {'A': list(A), 'free': list(free)})
                    break
            else:
                ctx.outcomes.add('ok')
            sample = {'family': fam, 'assignment': dict(zip(names, A)), 'targets': {k: str(v) for k, v in T.items()}, 'strengths': mkey}
    return ctx.result(sample)


def run_case(case, seed):
    if case['kind'] == 'base':
        return _run_base(case, seed)
    if case['kind'] == 'extra':
        return _run_extra(case, seed)
    return _run_duccio(case, seed)
