"""C13 - quantizers emit values that fit their declared bit-width and scale.

Exhaustive boundary sweep (a lattice whose elements are integer level indices) on the real
MinMaxWeight / PACTAct / QuantizerBias modules.

For a precision p and a scale (channel maximum M for weights, clip value for activations, the product
s_a*s_w for the bias) the abstract state is (quantizer, p, scale, level, offset): the input is placed on
level boundary `level` of the quantizer (weights/bias: half-integers, activations: integers and the clip
point) shifted by `offset` float32 ulps (torch.nextafter), or on a mid-level / quarter-level point.
Every boundary of the quantizer is visited; a transition is the step to the next point of the sorted
sweep and carries the monotonicity edge invariant.  The statement's clauses are evaluated in float64 on
the outputs of the real modules (dequantize=False: integer image, dequantize=True: fake-quantized
output, `.scale`: reported scale); nothing is sampled and the seed is ignored.

Reference quantities are only used to *place* inputs (where the boundaries are) and to express the
statement's "one step": weights step = reported per-channel scale; activations step = (clip+1e-3)/(2^p-1)
(PACTAct.scale leaves the 1e-3 stabiliser out, DESIGN.md section 5 "C13 tolerance"); bias step = s_a*s_w.

Signatures are '<quantizer>/<failed clause>/<class>' (class: bits=0 | bits>=2 for weights/activations, the
class of the scale for the bias).  ISCLOSE_ATOL below is only used to *name* one failure class
(bias/error-ge-one-step/nonzero-scale-le-1e-8-treated-as-zero: QuantizeBiasSTE masks with
isclose(s_b, 0), so a non-zero product s_a*s_w <= 1e-8 is handled as a zero scale and the bias is
returned as 0); it does not excuse anything.
"""
import math

import torch

PID = 'C13'
RULE = ('per quantizer x bits x scale one case; inputs = every level boundary of the quantizer (weights: half-integer multiples of '
        'the step between -max and +max, activations: integer multiples 0..2^p-1 of the step and the clip point, bias: half-integer '
        'multiples of s_a*s_w around zero and around magnitudes 2^-30..2^13) at offsets 0 and +-1 float32 ulp (thorough: +-3), plus '
        'mid-level and quarter-level points, inputs <= 0 and >= clip, channel shapes mixed-sign / positive / negative / constant / '
        'all-zero / single-element, 2-D and 4-D weight tensors, zero-scale bias channels; every point is run through the real module '
        'with dequantize False and True, eval and train mode, and each clause of the statement is evaluated on it; transition = '
        'neighbouring points of the sorted sweep (monotonicity edge); non-trivial = a boundary/mid-level point of a channel with '
        'non-zero range (bits > 0), keyed by (quantizer, bits, scale, channel shape, level)')
ASSUMPTIONS = [
    'inputs are restricted to the statement\'s quantifier: zero or magnitude in [2^-30, 2^13]; symmetric weights; clip >= 0.05',
    'slack: truncation / error clauses allow 2 float32 ulp of the input (4 for the bias, whose integer image can exceed 2^24); '
    'output == integer x scale allows 3e-7 relative (2 ulp)',
    'PACTAct: output == integer x reported scale is checked up to the stabiliser\'s relative share 1e-3/(clip+1e-3), in the '
    'stabiliser\'s direction only (the real step is never smaller than the reported one); one step = (clip+1e-3)/(2^p-1)',
    'the bias quantizer has no clipping range: "error below one step" is applied to every bias input with a non-zero scale',
    'the statement does not fix the rounding mode of the weight quantizer (only range, monotonicity and error < 1 step), so '
    'round-to-nearest is not asserted',
]

LO = 2.0 ** -30
HI = 2.0 ** 13
REL2ULP = 3e-7
ISCLOSE_ATOL = 1e-8          # torch.isclose default atol, used by QuantizeBiasSTE to detect a "zero" scale

W_MAX = {'quick': [2.0 ** -30, 2.0 ** -20, 2.0 ** -10, 0.05, 1.0, 6.0, 1e3, 2.0 ** 13],
         'thorough': sorted({2.0 ** -30, 2.0 ** -20, 2.0 ** -10, 1e-3, 0.05, 0.3, 1.0, 6.0, 37.5, 1e3, 2.0 ** 13} | {
             m * 2.0 ** e for e in range(-30, 13, 3) for m in (1.0, 1.1, 1.3333334, 1.61, 1.9999999)})}
CLIPS = {'quick': [0.05, 0.3, 1.0, 6.0, 100.0, 1e3],
         'thorough': [0.05, 0.0517, 0.06, 0.08, 0.11, 0.13, 0.17, 0.25, 0.3, 0.41, 0.62, 0.77, 0.9, 1.0, 1.25, 1.7, 2.5, 3.3, 5.0,
                      6.0, 7.7, 12.0, 25.0, 64.0, 100.0, 128.0, 333.0, 800.0, 1e3]}
W_BITS = [0, 2, 3, 4, 5, 6, 7, 8]
A_BITS = [2, 3, 4, 5, 6, 7, 8]
FULL_QUICK = (2, 3, 4, 8)
MAX_V_PER_SIG = 2            # violations reported per signature and case (the first ones of the sweep)


# ----------------------------------------------------------------------------------------------
# scale grids of the bias quantizer: what PACTAct.scale / MinMaxWeight.scale produce on the grids above
# ----------------------------------------------------------------------------------------------
def _f32(v):
    return float(torch.tensor(v, dtype=torch.float32))


def _sa_grid(tier):
    # 0, PACTAct.scale for (clip, bits) of the grids, 1.0 (DummyQuantizer); 1/255 is the library's default input quantizer at 8 bits
    g = [0.0, _f32(_f32(0.05) / 255), _f32(1.0 / 255), _f32(_f32(0.3) / 15), _f32(1.0 / 3), _f32(6.0 / 255), 1.0, _f32(100.0 / 7),
         _f32(1e3 / 3)]
    if tier == 'thorough':
        g += [_f32(6.0 / 15), _f32(_f32(0.05) / 3), _f32(1e3 / 255)]
    return g


def _sw_grid(tier):
    # 0 (0-bit weights / zero-scale channels) and MinMaxWeight.scale = 2*max/(2^bits-1) for (max, bits) of the grids
    g = [0.0, _f32(2.0 ** -29 / 255), _f32(2.0 ** -19 / 15), _f32(2 * _f32(3e-4) / 255), _f32(2.0 ** -9 / 255), _f32(_f32(0.1) / 7),
         _f32(2.0 / 255),
         _f32(12.0 / 3), _f32(2e3 / 15), _f32(2.0 ** 14 / 3)]
    if tier == 'thorough':
        g += [_f32(2.0 ** -9 / 3), _f32(2.0 / 15), _f32(12.0 / 255), _f32(2.0 ** -14 / 255)]
    return g


def cases(tier, seed):
    ulps = 1 if tier == 'quick' else 3
    out = []
    for p in W_BITS:
        for M in W_MAX[tier]:
            full = (tier == 'thorough' or p in FULL_QUICK) and p > 0      # 0 bits has no levels: a coarse sweep of inputs
            out.append({'q': 'w', 'p': p, 'M': M, 'sweep': 'full' if full else 'coarse', 'ulps': ulps})
    for p in A_BITS:
        for c in CLIPS[tier]:
            full = tier == 'thorough' or p in FULL_QUICK
            out.append({'q': 'a', 'p': p, 'clip': c, 'sweep': 'full' if full else 'coarse', 'ulps': ulps})
    K = 48 if tier == 'quick' else 260
    sw = _sw_grid(tier)
    for sa in _sa_grid(tier):
        for s in sw:
            if s != 0.0:
                out.append({'q': 'b', 'sa': sa, 'sw': [s, 0.0], 'K': K, 'ulps': ulps})
        out.append({'q': 'b', 'sa': sa, 'sw': sw, 'K': 3, 'ulps': ulps, 'mixed': True})
    out.sort(key=lambda c: (c.get('p', 9), {'w': 0, 'a': 1, 'b': 2}[c['q']]))
    return out


def bounds(tier):
    return {'weight_bits': W_BITS, 'act_bits': A_BITS,
            'full_boundary_sweep_bits': list(FULL_QUICK) if tier == 'quick' else A_BITS,
            'coarse_sweep_bits': [5, 6, 7, 0] if tier == 'quick' else [0],
            'ulp_offsets': 1 if tier == 'quick' else 3,
            'weight_channel_maxima': W_MAX[tier], 'pact_clip_values': CLIPS[tier],
            'bias_s_a': _sa_grid(tier), 'bias_s_w': _sw_grid(tier), 'bias_levels_each_side': 48 if tier == 'quick' else 260,
            'channel_shapes': ['mixed', 'pos', 'neg', 'const+', 'const-', 'zero', 'single'],
            'tensor_shapes': ['2d', '4d', 'single-element (C,1)', 'single-element 1-D (C,)'], 'modes': ['eval', 'train'], 'dequantize': [False, True],
            'input_magnitudes': 'zero or [2^-30, 2^13]'}


# ----------------------------------------------------------------------------------------------
# float32 helpers
# ----------------------------------------------------------------------------------------------
def _nudge(x32, n):
    if n == 0:
        return x32.clone()
    tgt = torch.full_like(x32, math.inf if n > 0 else -math.inf)
    y = x32
    for _ in range(abs(n)):
        y = torch.nextafter(y, tgt)
    return y


def _ulp64(x32):
    """spacing of float32 at |x| (float64 tensor)"""
    a = x32.abs()
    return (torch.nextafter(a, torch.full_like(a, math.inf)).double() - a.double())


def _in_quantifier(v):
    return v == 0.0 or LO <= abs(v) <= HI


def _offsets(ulps):
    out = [0]
    for k in range(1, ulps + 1):
        out += [-k, k]
    return out


def _build_points(specs, ulps, keep=None):
    """specs: list of (tag, level, value64, with_neighbours).  -> (x32 sorted unique, meta list of (tag, level, offset)).

    The value is rounded to float32, neighbours are taken with nextafter; duplicates keep the metadata of the smallest
    |offset| (first spec wins); values outside the quantifier (or rejected by `keep`) are dropped."""
    if not specs:
        return torch.zeros(0), []
    base = torch.tensor([s[2] for s in specs], dtype=torch.float64).float()
    seen = {}
    for off in _offsets(ulps):
        xs = _nudge(base, off).tolist()
        for (tag, lv, _, nb), v in zip(specs, xs):
            if off != 0 and not nb:
                continue
            if not math.isfinite(v) or not _in_quantifier(v):
                continue
            if keep is not None and not keep(v):
                continue
            if v == 0.0:
                v = 0.0  # merge -0.0
            if v not in seen:
                seen[v] = (tag, lv, off)
    vals = sorted(seen)
    return torch.tensor(vals, dtype=torch.float64).float(), [seen[v] for v in vals]


class _Acc:
    def __init__(self, case):
        self.case = {k: v for k, v in case.items() if k != 'only'}
        self.only = case.get('only')
        self.states = self.transitions = self.evals = 0
        self.nontrivial = set()
        self.outcomes = set()
        self.viols = []
        self.per_sig = {}
        self.sample = None

    def want_variant(self, variant):
        return self.only is None or self.only.get('variant') == variant

    def only_mask(self, X, rowmask=None):
        """elements the replay is restricted to (all when not replaying)"""
        if self.only is None or 'x' not in self.only:
            m = torch.ones_like(X, dtype=torch.bool)
        else:
            m = X == self.only['x']
        if self.only is not None and rowmask is not None:
            m = m & rowmask
        return m

    def viol(self, kind, sig, msg, variant, chan, x):
        n = self.per_sig.get(sig, 0)
        self.per_sig[sig] = n + 1
        if n >= MAX_V_PER_SIG:
            return
        only = {'variant': variant, 'x': float(x)}
        if chan is not None:
            only['chan'] = chan
        self.viols.append({'kind': kind, 'sig': sig, 'msg': msg, 'case': dict(self.case, only=only)})

    def result(self):
        return {'states': self.states, 'transitions': self.transitions, 'evals': self.evals,
                'nontrivial': sorted(self.nontrivial), 'outcomes': sorted(self.outcomes), 'violations': self.viols,
                'sample': self.sample}


def _first(mask):
    nz = mask.nonzero()
    return tuple(nz[0].tolist()) if len(nz) else None


def _pick(mask, X):
    """index of the failing element with the smallest |input| (first one on ties): the minimal witness"""
    nz = mask.nonzero()
    if not len(nz):
        return None
    mags = X[mask].abs()
    return tuple(nz[int(torch.argmin(mags))].tolist())


def _bits_class(p):
    return 'bits=0' if p == 0 else 'bits>=2'


def _mono_edges(acc, X, Y, rows=None):
    """per row: sort by input, outputs must be non-decreasing. -> (bad (row, x_lo, x_hi, y_lo, y_hi) | None, #edges)"""
    order = torch.argsort(X, dim=-1, stable=True)
    xs = torch.gather(X, -1, order)
    ys = torch.gather(Y, -1, order)
    dx = xs[..., 1:] > xs[..., :-1]
    dy = ys[..., 1:] - ys[..., :-1]
    bad = dx & (dy < 0)            # non-finite outputs are reported by the finiteness clause, not here
    if acc.only is not None and 'x' in acc.only:
        bad = bad & ((xs[..., 1:] == acc.only['x']) | (xs[..., :-1] == acc.only['x']))
    if rows is not None:
        bad = bad & rows.view(-1, 1)
    n = int(dx.sum())
    i = _first(bad)
    if i is None:
        return None, n
    j = i[:-1] + (i[-1] + 1,)
    return (i[0] if len(i) > 1 else 0, float(xs[i]), float(xs[j]), float(ys[i]), float(ys[j])), n


# ----------------------------------------------------------------------------------------------
# weights
# ----------------------------------------------------------------------------------------------
W_CHANS = ['mixed', 'pos', 'neg', 'const+', 'const-', 'zero']


def _weight_points(p, M32, sweep, ulps):
    """sorted sweep of one channel whose maximum is M (always contains +M and -M)"""
    pl = p if p > 0 else 3                       # 0 bits has no levels: use the 3-bit layout as inputs
    n = 2 ** pl - 1
    M = torch.tensor(M32, dtype=torch.float32)
    step = float((M - (-1 * M)) / n)              # float32 arithmetic, as the quantizer's own range / n_steps
    half = 2 ** (pl - 1)
    bnd = [k + 0.5 for k in range(-half - 1, half + 1)]     # -2^(p-1)-1/2 .. 2^(p-1)+1/2 (those beyond +-M are dropped)
    mid = list(range(-half, half + 1))
    if sweep == 'coarse':
        keepb = {bnd[0], bnd[1], bnd[2], -1.5, -0.5, 0.5, 1.5, bnd[-3], bnd[-2], bnd[-1], half / 2 + 0.5, -half / 2 - 0.5}
        bnd = [b for b in bnd if b in keepb]
        keepm = {-half, -half + 1, -1, 0, 1, half - 1, half, half // 2}
        mid = [m for m in mid if m in keepm]
    specs = [('max', n / 2, float(M), True), ('max', -n / 2, -float(M), True)]
    specs += [('bnd', b, b * step, True) for b in bnd]
    specs += [('mid', float(m), m * step, False) for m in mid]
    specs += [('q', m + 0.25, (m + 0.25) * step, False) for m in mid[:-1]]
    m = float(M)
    return _build_points(specs, ulps, keep=lambda v: abs(v) <= m), step


def _weight_tensor(x, meta, M):
    """(C, N4) tensor, one row per channel shape; valid marks the distinct abstract inputs of each row"""
    N = len(x)
    N4 = ((N + 3) // 4) * 4
    C = len(W_CHANS)
    X = torch.zeros(C, N4)
    valid = torch.zeros(C, N4, dtype=torch.bool)
    X[0, :] = M
    X[0, :N] = x
    valid[0, :N] = True
    X[1, :] = M
    X[1, :N] = torch.where(x >= 0, x, torch.tensor(M))
    valid[1, :N] = x >= 0
    X[2, :] = -M
    X[2, :N] = torch.where(x <= 0, x, torch.tensor(-M))
    valid[2, :N] = x <= 0
    X[3, :] = M
    valid[3, 0] = True
    X[4, :] = -M
    valid[4, 0] = True
    valid[5, 0] = True
    return X, valid


def _run_module(cls, kwargs, train, call):
    q = cls(**kwargs)
    q.train(train)
    y = call(q)
    return y.detach().clone(), q


def _check_weight(acc, p, Mcase, variant, chans, X32, valid, Yi32, Yd32, Si32, Sd32, levels):
    """X32 (C,N); outputs of the int / deq instance; reported scales (C,).  chans: row names."""
    C, N = X32.shape
    X = X32.double()
    Yi, Yd = Yi32.double(), Yd32.double()
    bc = _bits_class(p)
    base = f'weight bits={p} max={Mcase!r} {variant}'

    def where(i):
        r, c = i
        x = float(X32[r, c])
        lv = levels(r, c)
        return chans[r], x, f'channel={chans[r]} x={x!r} ({lv})'

    ok_shape = (Yi32.shape == X32.shape and Yd32.shape == X32.shape and tuple(Si32.shape) == (C,) and tuple(Sd32.shape) == (C,))
    acc.evals += int(valid.sum()) * 2
    if not ok_shape:
        acc.viol('weight-shape', f'weight/shape/{bc}', f'{base}: output/scale shapes {tuple(Yi32.shape)} {tuple(Si32.shape)}',
                 variant, None, float(X32[0, 0]))
        return
    om = acc.only_mask(X32)
    if acc.only is not None and 'chan' in acc.only:
        om = om & torch.tensor([c == acc.only['chan'] for c in chans]).view(-1, 1)
    Si, Sd = Si32.double().view(C, 1), Sd32.double().view(C, 1)

    def report(bad, kind, sigk, text):
        i = _pick(bad & om, X)
        if i is not None:
            ch, x, w = where(i)
            acc.viol(kind, f'weight/{sigk}/{bc}', f'{base}: {w}: ' + text(i), variant, ch, x)
            return True
        return False

    fin = torch.isfinite(Yi) & torch.isfinite(Yd) & torch.isfinite(Si) & torch.isfinite(Sd)
    zero_rows = (X == 0).all(dim=1, keepdim=True)
    report(~fin & zero_rows, 'non-finite', 'non-finite/zero-range-channel',
           lambda i: f'int={float(Yi[i])} deq={float(Yd[i])} scale={float(Si[i[0], 0])}')
    report(~fin & ~zero_rows, 'non-finite', 'non-finite', lambda i: f'int={float(Yi[i])} deq={float(Yd[i])} scale={float(Si[i[0], 0])}')
    if p == 0:
        report(fin & ((Yi != 0) | (Yd != 0)), '0bit-not-zero', 'nonzero-output',
               lambda i: f'0-bit output int={float(Yi[i])} deq={float(Yd[i])}, expected all zeros')
        acc.outcomes.add('w:0bit-zeros')
        return
    report(fin & (Yi != torch.round(Yi)), 'not-integer', 'int-image-not-integral',
           lambda i: f'dequantize=False output {float(Yi[i])!r} is not an integer')
    lo, hi = -2 ** (p - 1), 2 ** (p - 1) - 1
    report(fin & (Yi > hi), 'out-of-range', 'int-above-signed-max',
           lambda i: f'integer image {float(Yi[i])} > {hi} = 2^(p-1)-1')
    report(fin & (Yi < lo), 'out-of-range', 'int-below-signed-min',
           lambda i: f'integer image {float(Yi[i])} < {lo} = -2^(p-1)')
    prod = Yi * Sd
    report(fin & ((Yd - prod).abs() > REL2ULP * prod.abs()), 'deq-ne-int-x-scale', 'deq-ne-int-x-scale',
           lambda i: f'dequantize=True output {float(Yd[i])!r} != integer {float(Yi[i])} x reported scale {float(Sd[i[0], 0])!r} '
                     f'= {float(prod[i])!r}')
    slack = 2 * _ulp64(X32)
    report(fin & ((Yd - X).abs() >= Sd + slack), 'error-ge-step', 'error-ge-one-step/deq',
           lambda i: f'|q(x)-x| = {float((Yd[i] - X[i]).abs()):.6g} >= one step {float(Sd[i[0], 0]):.6g} (q(x)={float(Yd[i])!r})')
    report(fin & ((Yi * Si - X).abs() >= Si + slack), 'error-ge-step', 'error-ge-one-step/int',
           lambda i: f'|int*scale-x| = {float((Yi[i] * Si[i[0], 0] - X[i]).abs()):.6g} >= one step {float(Si[i[0], 0]):.6g} '
                     f'(int={float(Yi[i])})')
    for nm, Y in (('int', Yi), ('deq', Yd)):
        rows = None
        if acc.only is not None and 'chan' in acc.only:
            rows = torch.tensor([c == acc.only['chan'] for c in chans])
        bad, n = _mono_edges(acc, X, Y, rows)
        acc.transitions += n
        if bad is not None:
            r, x0, x1, y0, y1 = bad
            acc.viol('not-monotone', f'weight/not-monotone/{bc}',
                     f'{base}: channel={chans[r]} {nm} output decreases: q({x0!r})={y0!r} > q({x1!r})={y1!r}', variant, chans[r], x1)
    # outcome classes (vacuity guard)
    if bool((Yi == hi).any()):
        acc.outcomes.add('w:top-level')
    if bool((Yi == lo).any()):
        acc.outcomes.add('w:bottom-level')
    if bool(((Yi > lo) & (Yi < hi) & (Yi != 0)).any()):
        acc.outcomes.add('w:interior-level')
    if bool(zero_rows.any()):
        acc.outcomes.add('w:zero-range-channel')
    if bool(((Yi == hi) & (X / Si > hi + 0.25)).any()):
        acc.outcomes.add('w:clipped-at-top')


def _run_weight(acc, case):
    from plinio.methods.mps.quant.quantizers import MinMaxWeight
    p, Mc = case['p'], case['M']
    M = _f32(Mc)
    (x, meta), step = _weight_points(p, M, case['sweep'], case['ulps'])
    X, valid = _weight_tensor(x, meta, M)
    C, N4 = X.shape
    N = len(x)

    def lv_main(r, c):
        if r >= 3:
            return f'{W_CHANS[r]} channel: every element equals this value'
        if c < N and bool(valid[r, c]):
            t, lv, off = meta[c]
            return f'{t} level {lv:g} x step {step!r}, offset {off:+d} ulp'
        return 'padding element (= channel maximum)'

    # abstract states / non-trivial keys of this case
    acc.states += int(valid.sum())
    for r, ch in enumerate(W_CHANS[:3]):
        if p > 0:
            for c in range(N):
                if valid[r, c]:
                    acc.nontrivial.add(f'w/p{p}/M{Mc!r}/{ch}/{meta[c][1]:g}')
    if p > 0:
        acc.nontrivial.add(f'w/p{p}/M{Mc!r}/const+')
        acc.nontrivial.add(f'w/p{p}/M{Mc!r}/const-')
    # single-element channels: every non-zero sweep value alone in its channel (+ one zero channel)
    X1 = x.view(-1, 1).clone()
    acc.states += len(x)
    if p > 0:
        acc.nontrivial.add(f'w/p{p}/M{Mc!r}/single')

    def lv_single(r, c):
        t, lv, off = meta[r]
        return f'single-element channel; value = {t} level {lv:g} x step {step!r}, offset {off:+d} ulp of the max-{M!r} sweep'

    # histories of the quantizer INSTANCE before the evaluated call: fresh; after having observed a tensor with a 4x smaller / larger
    # range in train or eval mode (the same module is applied again and again while the weights move); after its bit-width was changed
    # through the public `precision` setter.  The clauses are about the call at hand, whatever the instance saw before.
    HISTS = ['fresh', 'seen-smaller/train', 'seen-smaller/eval', 'seen-larger/eval', 'precision-set']
    for train in (False, True):
        # 'single1d': the same single-element channels handed over as a 1-D tensor of shape (C,) (e.g. a per-channel scale or a
        # depthwise 1x1 weight squeezed by the caller): still one channel per element
        for shp, hist in [(sh, 'fresh') for sh in ('2d', '4d', 'single', 'single1d')] + [('2d', h) for h in HISTS[1:]]:
            variant = f'{"train" if train else "eval"}/{shp}' + ('' if hist == 'fresh' else '/' + hist)
            if not acc.want_variant(variant):
                continue
            if shp in ('single', 'single1d'):
                Xin, chans, vmask, lvf = X1, ['single'] * len(x), torch.ones_like(X1, dtype=torch.bool), lv_single
            else:
                Xin, chans, vmask, lvf = X, W_CHANS, valid, lv_main
            shape = (C, N4 // 4, 2, 2) if shp == '4d' else (Xin.shape[0],) if shp == 'single1d' else Xin.shape
            cout = Xin.shape[0]
            outs = []
            for dq in (False, True):
                xin = Xin.clone().view(shape)

                def call(q, xin=xin):
                    if hist.startswith('seen-'):
                        q.train(hist.endswith('/train'))
                        q(xin * (0.25 if 'smaller' in hist else 4.0))
                        q.train(train)
                    elif hist == 'precision-set':
                        q.precision = p
                    return q(xin)
                p0 = p if hist != 'precision-set' else (8 if p != 8 else 4)
                y, q = _run_module(MinMaxWeight, dict(precision=p0, cout=cout, symmetric=True, dequantize=dq), train, call)
                s = q.scale.detach().clone()
                outs.append((y.reshape(Xin.shape) if y.numel() == Xin.numel() else y, s))
            _check_weight(acc, p, Mc, variant, chans, Xin, vmask, outs[0][0], outs[1][0], outs[0][1], outs[1][1], lvf)
            if acc.sample is None and shp == '2d' and (p, Mc) in ((2, 1.0), (8, 6.0)):
                k = min(N, 6)
                acc.sample = {'quantizer': 'MinMaxWeight', 'bits': p, 'channel_max': Mc, 'step': step,
                              'inputs(first)': [float(v) for v in X[0, :k]], 'levels': [list(meta[i]) for i in range(k)],
                              'int': [float(v) for v in outs[0][0][0, :k]], 'deq': [float(v) for v in outs[1][0][0, :k]],
                              'points_in_sweep': N}


# ----------------------------------------------------------------------------------------------
# activations
# ----------------------------------------------------------------------------------------------
def _act_points(p, clip32, sweep, ulps):
    n = 2 ** p - 1
    step = (clip32 + 1e-3) / n                   # the quantizer's real step (float64 reference)
    ks = list(range(0, n + 2))
    if sweep == 'coarse':
        keep = {0, 1, 2, n // 2, n // 2 + 1, n - 2, n - 1, n, n + 1}
        ks = [k for k in ks if k in keep]
    specs = [('clip', clip32 / step, clip32, True), ('zero', 0.0, 0.0, False)]
    specs += [('bnd', float(k), k * step, True) for k in ks]
    for k in ks[:-1]:
        specs += [('mid', k + 0.5, (k + 0.5) * step, False), ('q', k + 0.25, (k + 0.25) * step, False),
                  ('q', k + 0.75, (k + 0.75) * step, False)]
    for v in (-0.5 * step, -step, -clip32, -LO, -1.0, -HI):
        specs.append(('neg', v / step, v, True))
    for v in (clip32 + step, 2 * clip32, 10 * clip32, HI):
        specs.append(('above', v / step, v, True))
    return _build_points(specs, ulps), step


def _check_act(acc, p, clipc, clip32, step, variant, X32, Yi32, Yd32, S32, meta):
    X = X32.double()
    Yi, Yd = Yi32.double(), Yd32.double()
    S = float(S32)
    base = f'act bits={p} clip={clipc!r} {variant}'
    bc = 'bits>=2'
    om = acc.only_mask(X32)
    acc.evals += len(X32) * 2

    def where(i):
        x = float(X32[i])
        t, lv, off = meta[i[0]]
        return x, f'x={x!r} ({t} level {lv:g} x step {step!r}, offset {off:+d} ulp)'

    def report(bad, kind, sigk, text):
        i = _pick(bad & om, X)
        if i is not None:
            x, w = where(i)
            acc.viol(kind, f'act/{sigk}/{bc}', f'{base}: {w}: ' + text(i), variant, None, x)

    if Yi32.shape != X32.shape or Yd32.shape != X32.shape or S32.numel() != 1:
        acc.viol('act-shape', f'act/shape/{bc}', f'{base}: output shapes {tuple(Yi32.shape)} {tuple(Yd32.shape)}', variant, None,
                 float(X32[0]))
        return
    fin = torch.isfinite(Yi) & torch.isfinite(Yd) & math.isfinite(S)
    report(~fin, 'non-finite', 'non-finite', lambda i: f'int={float(Yi[i])} deq={float(Yd[i])} scale={S}')
    report(fin & (Yi != torch.round(Yi)), 'not-integer', 'int-image-not-integral',
           lambda i: f'dequantize=False output {float(Yi[i])!r} is not an integer')
    top = 2 ** p - 1
    report(fin & ((Yi < 0) | (Yi > top)), 'out-of-range', 'int-outside-0..2^p-1',
           lambda i: f'integer image {float(Yi[i])} outside [0, {top}]')
    report(fin & (X <= 0) & ((Yi != 0) | (Yd != 0)), 'nonpositive-not-zero', 'x<=0-not-mapped-to-0',
           lambda i: f'x <= 0 gives int={float(Yi[i])} deq={float(Yd[i])}')
    ge = X >= clip32
    at = (X32 == clip32).nonzero()
    ti, td = float(Yi[at[0, 0]]), float(Yd[at[0, 0]])
    report(fin & ge & ((Yi != ti) | (Yd != td)), 'no-common-top-level', 'x>=clip-not-one-top-level',
           lambda i: f'x >= clip gives int={float(Yi[i])} deq={float(Yd[i])!r} but q(clip) is int={ti} deq={td!r}')
    # fake-quantized == integer x reported scale, up to the stabiliser's share (one-sided) + 2 ulp
    delta = 1e-3 / (clip32 + 1e-3)
    prod = Yi * S
    diff = Yd - prod
    report(fin & ((diff > Yd.abs() * (delta + REL2ULP)) | (diff < -REL2ULP * Yd.abs())), 'deq-ne-int-x-scale', 'deq-ne-int-x-scale',
           lambda i: f'dequantize=True output {float(Yd[i])!r} vs integer {float(Yi[i])} x reported scale {S!r} = {float(prod[i])!r}: '
                     f'relative difference {float(diff[i] / Yd[i]):.3e} outside [0, 1e-3/(clip+1e-3) = {delta:.3e}]')
    slack = 2 * _ulp64(X32)
    inside = (X >= 0) & (X <= clip32)
    report(fin & (X >= 0) & (Yd > X + slack), 'not-truncating', 'output-exceeds-input/deq',
           lambda i: f'q(x) = {float(Yd[i])!r} exceeds x by {float(Yd[i] - X[i]):.6g} (> 2 ulp = {float(slack[i]):.3g})')
    report(fin & (X >= 0) & (prod > X + slack), 'not-truncating', 'output-exceeds-input/int',
           lambda i: f'int {float(Yi[i])} x reported scale = {float(prod[i])!r} exceeds x by {float(prod[i] - X[i]):.6g}')
    stp = step * (1 + REL2ULP)
    report(fin & inside & ((X - Yd).abs() >= stp + slack), 'error-ge-step', 'error-ge-one-step/deq',
           lambda i: f'|q(x)-x| = {float((X[i] - Yd[i]).abs()):.6g} >= one step {step:.6g} (q(x)={float(Yd[i])!r})')
    report(fin & inside & ((X - Yi * step).abs() >= stp + slack + REL2ULP * X.abs()), 'error-ge-step', 'error-ge-one-step/int',
           lambda i: f'|int*step-x| = {float((X[i] - Yi[i] * step).abs()):.6g} >= one step {step:.6g} (int={float(Yi[i])})')
    for nm, Y in (('int', Yi), ('deq', Yd)):
        bad, n = _mono_edges(acc, X, Y)
        acc.transitions += n
        if bad is not None:
            _, x0, x1, y0, y1 = bad
            acc.viol('not-monotone', f'act/not-monotone/{bc}', f'{base}: {nm} output decreases: q({x0!r})={y0!r} > q({x1!r})={y1!r}',
                     variant, None, x1)
    acc.outcomes.add('a:zero-for-x<=0')
    acc.outcomes.add(f'a:top-level={"2^p-1" if ti == top else ("2^p-2" if ti == top - 1 else "lower")}')
    if bool((fin & inside & (Yd > X)).any()):
        acc.outcomes.add('a:overshoot-within-2ulp')
    if bool(((Yi > 0) & (Yi < ti)).any()):
        acc.outcomes.add('a:interior-level')


def _run_act(acc, case):
    from plinio.methods.mps.quant.quantizers import PACTAct
    p, clipc = case['p'], case['clip']
    clip32 = _f32(clipc)
    (x, meta), step = _act_points(p, clip32, case['sweep'], case['ulps'])
    N = len(x)
    acc.states += N
    for t, lv, off in meta:
        if t in ('bnd', 'mid', 'q', 'clip'):
            acc.nontrivial.add(f'a/p{p}/clip{clipc!r}/{t}/{math.floor(lv)}')
    sel = [i for i, m in enumerate(meta) if m[0] in ('clip', 'zero') or (m[0] == 'bnd' and m[1] in (1.0, float(2 ** p - 1)))]
    for train in (False, True):
        for shp, hist in [('1d', 'fresh'), ('4d', 'fresh'), ('single', 'fresh'), ('1d', 'precision-set'), ('1d', 'used-before')]:
            variant = f'{"train" if train else "eval"}/{shp}' + ('' if hist == 'fresh' else '/' + hist)
            if not acc.want_variant(variant):
                continue
            outs = []
            for dq in (False, True):
                if hist == 'precision-set':
                    # an existing quantizer whose bit-width is changed through the public `precision` setter
                    q = PACTAct(precision=(8 if p != 8 else 4), init_clip_val=clipc, dequantize=dq)
                    q.precision = p
                else:
                    q = PACTAct(precision=p, init_clip_val=clipc, dequantize=dq)
                if hist == 'used-before':
                    q.train(not train)
                    q(x.clone() * 0.5)
                q.train(train)
                if shp == '1d':
                    y = q(x.clone()).detach().clone()
                    xin, m = x, meta
                elif shp == '4d':
                    pad = (-N) % 4                              # pad with copies of the largest input
                    xin = torch.cat([x, x[-1:].repeat(pad)]) if pad else x
                    m = meta + [meta[-1]] * pad
                    y = q(xin.clone().view(1, len(xin) // 4, 2, 2)).detach().clone().reshape(-1)
                else:
                    xin, m = x[sel], [meta[i] for i in sel]
                    y = torch.cat([q(x[i:i + 1].clone()).detach().clone().reshape(-1) for i in sel])
                outs.append((y, q.scale.detach().clone()))
            _check_act(acc, p, clipc, clip32, step, variant, xin, outs[0][0], outs[1][0], outs[1][1], m)
            if acc.sample is None and shp == '1d' and (p, clipc) in ((2, 1.0), (8, 6.0)):
                i0 = min(range(N), key=lambda i: abs(float(x[i]) - 1.0 * step))
                idx = list(range(max(0, i0 - 2), min(N, i0 + 3)))
                acc.sample = {'quantizer': 'PACTAct', 'bits': p, 'clip': clipc, 'step': step, 'reported_scale': float(outs[1][1]),
                              'inputs(around level 1)': [float(x[i]) for i in idx], 'levels': [list(meta[i]) for i in idx],
                              'int': [float(outs[0][0][i]) for i in idx], 'deq': [float(outs[1][0][i]) for i in idx],
                              'points_in_sweep': N}


# ----------------------------------------------------------------------------------------------
# bias
# ----------------------------------------------------------------------------------------------
B_MAGS = [2.0 ** -30, 2.0 ** -20, 2.0 ** -10, 0.3, 1.0, 100.0, 2.0 ** 13]


def _bias_points(S, K, ulps):
    """sweep of bias values for one scale S = float32(s_a*s_w)"""
    specs = [('zero', 0.0, 0.0, False)]
    for t in B_MAGS:
        for sg in (1.0, -1.0):
            specs.append(('mag', (sg * t / S) if S else 0.0, sg * t, True))
    if S > 0:
        for k in range(-K - 1, K + 1):
            specs.append(('bnd', k + 0.5, (k + 0.5) * S, True))
        for k in range(-K, K + 1):
            specs.append(('mid', float(k), k * S, False))
        for t in B_MAGS:
            k0 = round(t / S)
            if 1 <= k0 < 2 ** 22:
                for sg in (1, -1):
                    for d in (-1.5, -0.5, 0.5, 1.5):
                        specs.append(('bnd', sg * (k0 + d), sg * (k0 + d) * S, True))
                    specs.append(('mid', float(sg * k0), sg * k0 * S, False))
    return _build_points(specs, ulps)


def _scale_class(S):
    if S == 0:
        return 'scale=0'
    return 'nonzero-scale-le-1e-8-treated-as-zero' if S <= ISCLOSE_ATOL else 'scale>1e-8'


def _run_bias(acc, case):
    from plinio.methods.mps.quant.quantizers import QuantizerBias
    sa = case['sa']
    sa_t = torch.tensor(sa, dtype=torch.float32)
    groups = []
    for g, sw in enumerate(case['sw']):
        S = float(sa_t * torch.tensor(sw, dtype=torch.float32))          # float32 product, as the quantizer computes it
        ref = S if S > 0 else (float(torch.tensor(case['sw'][0], dtype=torch.float32) * sa_t) if not case.get('mixed') else 0.0)
        x, meta = _bias_points(ref if S == 0 else S, case['K'], case['ulps'])
        groups.append((sw, S, x, meta))
    el = []
    for g, (sw, S, x, meta) in enumerate(groups):
        for i in range(len(x)):
            el.append((i, g))
    order = sorted(range(len(el)), key=lambda j: el[j])                   # riffle the groups: neighbours have different scales
    b = torch.stack([groups[el[j][1]][2][el[j][0]] for j in order])
    sw_t = torch.tensor([groups[el[j][1]][0] for j in order], dtype=torch.float64).float()
    grp = torch.tensor([el[j][1] for j in order])
    metas = [groups[el[j][1]][3][el[j][0]] for j in order]
    n = len(b)
    acc.states += n
    exact = sa_t.double() * sw_t.double()                                 # exact: 24+24 bits fit a double
    for j in range(n):
        S = groups[int(grp[j])][1]
        if S > 0 and metas[j][0] in ('bnd', 'mid'):
            lv = metas[j][1]
            acc.nontrivial.add(f'b/sa{sa!r}/sw{groups[int(grp[j])][0]!r}/{metas[j][0]}/{math.floor(lv) if abs(lv) < 1e6 else "big"}')
        elif S == 0 and float(b[j]) != 0:
            acc.nontrivial.add(f'b/sa{sa!r}/sw{groups[int(grp[j])][0]!r}/zero-scale-channel')
    for train in (False, True):
        variant = 'train' if train else 'eval'
        if not acc.want_variant(variant):
            continue
        outs = []
        for dq in (False, True):
            q = QuantizerBias(precision=32, cout=n, dequantize=dq)
            q.train(train)
            y = q(b.clone(), sa_t.clone(), sw_t.clone()).detach().clone()
            outs.append((y, q.scale.detach().clone()))
        _check_bias(acc, case, variant, b, sw_t, grp, exact, metas, outs[0][0], outs[1][0], outs[0][1], outs[1][1], groups)
        if acc.sample is None and sa == _f32(6.0 / 255) and case['sw'][0] in (_f32(2.0 / 255), _f32(2.0 ** -9 / 255)):
            idx = [j for j in range(n) if metas[j][0] == 'bnd' and abs(metas[j][1]) <= 1.5][:6]
            acc.sample = {'quantizer': 'QuantizerBias', 's_a': sa, 's_w': [float(sw_t[j]) for j in idx],
                          'inputs': [float(b[j]) for j in idx], 'levels': [list(metas[j]) for j in idx],
                          'int': [float(outs[0][0][j]) for j in idx], 'deq': [float(outs[1][0][j]) for j in idx], 'points': n}


def _check_bias(acc, case, variant, b32, sw_t, grp, exact, metas, Yi32, Yd32, Si32, Sd32, groups):
    sa = case['sa']
    n = len(b32)
    X = b32.double()
    base = f'bias s_a={sa!r} {variant}'
    acc.evals += n * 2
    om = acc.only_mask(b32)
    if acc.only is not None and 'chan' in acc.only:
        om = om & (sw_t == acc.only['chan'])

    def where(i):
        j = i[0]
        t, lv, off = metas[j]
        return float(sw_t[j]), float(b32[j]), (f's_w={float(sw_t[j])!r} (s_a*s_w={float(exact[j])!r}) b={float(b32[j])!r} '
                                               f'({t} level {lv:g}, offset {off:+d} ulp; element {j} of {n})')

    def report(bad, kind, sigk, text, near=None):
        # witness: smallest |b|, or (near given) the failing b closest to that magnitude
        i = _pick(bad & om, X if near is None else (X.abs() - near))
        if i is not None:
            sw, x, w = where(i)
            acc.viol(kind, f'bias/{sigk}', f'{base}: {w}: ' + text(i), variant, sw, x)

    if Yi32.shape != b32.shape or Yd32.shape != b32.shape or Si32.shape != b32.shape or Sd32.shape != b32.shape:
        acc.viol('bias-shape', 'bias/shape', f'{base}: output/scale shapes {tuple(Yi32.shape)} {tuple(Sd32.shape)}', variant, None,
                 float(b32[0]))
        return
    Yi, Yd, Si, Sd = Yi32.double(), Yd32.double(), Si32.double(), Sd32.double()
    zero = exact == 0
    fin = torch.isfinite(Yi) & torch.isfinite(Yd)
    report(~fin & zero, 'non-finite', 'non-finite/scale=0', lambda i: f'int={float(Yi[i])} deq={float(Yd[i])} where the scale is zero')
    report(~fin & ~zero, 'non-finite', 'non-finite/scale>0', lambda i: f'int={float(Yi[i])} deq={float(Yd[i])}')
    report(fin & zero & ((Yi != 0) | (Yd != 0)), 'zero-scale-not-zero', 'nonzero-output/scale=0',
           lambda i: f'int={float(Yi[i])} deq={float(Yd[i])}, expected exactly 0 where the scale is zero')
    # reported scale is the product of the two scales
    for nm, S in (('int', Si), ('deq', Sd)):
        report((S - exact).abs() > REL2ULP * exact.abs(), 'scale-ne-product', 'reported-scale-ne-sa*sw',
               lambda i: f'reported scale ({nm} instance) {float(S[i])!r} != s_a*s_w = {float(exact[i])!r}')
    report(fin & (Yi != torch.round(Yi)), 'not-integer', 'int-image-not-integral',
           lambda i: f'dequantize=False output {float(Yi[i])!r} is not an integer')
    prod = Yi * Sd
    report(fin & ((Yd - prod).abs() > REL2ULP * prod.abs()), 'deq-ne-int-x-scale', 'deq-ne-int-x-scale',
           lambda i: f'dequantize=True output {float(Yd[i])!r} != integer {float(Yi[i])} x reported scale {float(Sd[i])!r}')
    slack = 4 * _ulp64(b32)
    tiny = ~zero & (Sd <= ISCLOSE_ATOL)
    for nm, Q in (('deq', Yd), ('int', prod)):
        err = (Q - X).abs()
        bad = fin & ~zero & (err >= Sd + slack)
        report(bad & ~tiny, 'error-ge-step', 'error-ge-one-step/scale>1e-8',
               lambda i: f'|q(b)-b| = {float(err[i]):.6g} >= one step {float(Sd[i]):.6g} ({nm}: q(b)={float(Q[i])!r})')
        report(bad & tiny, 'error-ge-step', 'error-ge-one-step/nonzero-scale-le-1e-8-treated-as-zero',
               lambda i: f'|q(b)-b| = {float(err[i]):.6g} >= one step {float(Sd[i]):.6g} ({nm}: q(b)={float(Q[i])!r}): a non-zero '
                         f'scale <= 1e-8 is treated as zero (isclose atol) and the bias is dropped', near=1.0)
    # monotone inside each group of equal scale
    for g, (sw, S, x, meta) in enumerate(groups):
        if acc.only is not None and 'chan' in acc.only and float(torch.tensor(sw, dtype=torch.float32)) != acc.only['chan']:
            continue
        sel = grp == g
        for nm, Y in (('int', Yi), ('deq', Yd)):
            bad, ne = _mono_edges(acc, X[sel], Y[sel])
            acc.transitions += ne
            if bad is not None:
                _, x0, x1, y0, y1 = bad
                acc.viol('not-monotone', f'bias/not-monotone/{_scale_class(S)}',
                         f'{base}: s_w={sw!r}: {nm} output decreases: q({x0!r})={y0!r} > q({x1!r})={y1!r}', variant,
                         float(torch.tensor(sw, dtype=torch.float32)), x1)
        acc.outcomes.add('b:' + _scale_class(S))
    if bool((fin & ~zero & (Yi != 0)).any()):
        acc.outcomes.add('b:nonzero-integer')
    if bool((Yi.abs() >= 2 ** 24).any()):
        acc.outcomes.add('b:integer>=2^24')


# ----------------------------------------------------------------------------------------------
def run_case(case, seed):
    acc = _Acc(case)
    if case['q'] == 'w':
        _run_weight(acc, case)
    elif case['q'] == 'a':
        _run_act(acc, case)
    else:
        _run_bias(acc, case)
    return acc.result()
