"""C01 - PIT export computes the same function as the searched (masked) network.

Configuration-lattice explorer on the real PIT: programs of G_pit and of the kernel family K, every
abstract mask configuration within the tier's deviation bound (complete lattice when small), each one
realised on the real alpha/beta/gamma parameters, exported with the real export(), BN statistics
transferred as the statement prescribes, and the two networks compared on the witness batch together
with the structural agreement summary() <-> exported hyper-parameters.
"""
import torch

from .. import pitdrv as D
from .. import tol
from ..grammar import pit as G

PID = 'C01'
RULE = ('programs: kernel family K (producer conv -> causally padded Conv1d with every k in 1..9, d in 1..3, s in 1..2, bias, '
        'BN, fold_bn -> flatten -> linear) and grammar G_pit (all stage sequences up to the depth bound x 3 heads x 1D/2D, plus all '
        'single-option deviations); configurations: complete (channel-mask x RF-suffix x dilation-level) lattice when it has '
        '<= cap states, otherwise every configuration within d single-element deviations of "all open" plus the all-minimum corners; '
        'non-trivial = a (program, configuration) pair with at least one pruned element; a deterministic third of the programs is explored on a deep '
        'copy of the converted model with the original kept alive and untouched (signature suffix /on-deep-copy)')
ASSUMPTIONS = ['"on every input" is decided on a seeded generic witness batch of 3 inputs (DESIGN.md A3)',
               'binarisation abstraction A1 (eval-mode forward/export depend on mask parameters only through the binarised theta) is '
               'exercised rather than assumed: 4 real-valued representatives per abstract configuration ' + str(list(zip(D.PRUNED_REPS, D.KEPT_REPS))) +
               ' (all four on family K when a time mask is pruned, rotating elsewhere)',
               'RF/dilation moves only on causally left-padded stride-1 Conv1d (scope of the statement)',
               'programs with the structures of findings D4/D5/D24 (cat->depthwise, excluded layers, cat + conv(cat)) are checked under C09']


def bounds(tier):
    return {'quick': {'G_depth': 2, 'option_deviations': 1, 'mask_deviation_bound': 2, 'complete_lattice_cap': 96, 'K_kmax': 9},
            'thorough': {'G_depth': 3, 'option_deviations': 1, 'mask_deviation_bound': 2, 'complete_lattice_cap': 1024,
                         'K_kmax': 9}}[tier]


def cases(tier, seed):
    out = []
    for p in G.gen_K(9):
        out.append({'prog': p, 'fold_bn': False})
        if p['stages'][1]['bn']:
            out.append({'prog': p, 'fold_bn': True})
    depth = 2 if tier == 'quick' else 3
    base = G.gen_base(depth)
    progs = list(base)
    for p in G.gen_base(1):
        progs += G.option_deviations(p)
    if tier == 'thorough':
        progs += [q for p in G.gen_base(2) if len(p['stages']) == 2 and p['head']['kind'] == 'flatlin' for q in G.option_deviations(p)]
    progs += G.gen_special()
    for p in progs:
        if G.structure_flags(p):
            continue
        out.append({'prog': p, 'fold_bn': False})
        if G.has_bn(p):
            out.append({'prog': p, 'fold_bn': True})
    for m in HAND:
        for fold in ((False, True) if m != 'prefix1d' else (False,)):
            out.append({'kind': 'hand', 'model': m, 'fold_bn': fold})
    for c in out:
        c['tier'] = tier
    return out


# ----------------------------------------------------------------------------------------------
# hand-written networks whose layers are direct attributes with ordinary names (the grammar names every layer '<block>.conv')
# ----------------------------------------------------------------------------------------------
class _Tied1d(torch.nn.Module):
    """stem -> [shared conv + BN] invoked twice -> head; names: stem, shared, norm, head"""
    shape = (3, 8)

    def __init__(self):
        super().__init__()
        nn = torch.nn
        self.stem = nn.Conv1d(3, 4, 3, padding='same')
        self.shared = nn.Conv1d(4, 4, 3, padding='same')
        self.norm = nn.BatchNorm1d(4)
        self.head = nn.Linear(4 * 8, 2)

    def forward(self, x):
        x = torch.relu(self.stem(x))
        x = torch.relu(self.norm(self.shared(x)))
        x = torch.relu(self.norm(self.shared(x)))
        return self.head(x.flatten(1))


class _Tied2d(torch.nn.Module):
    """input -> expand (+BN) -> [block_b conv + BN] invoked twice with a skip -> pool -> lin; names: expand, block_b, bn_b, lin"""
    shape = (3, 4, 4)

    def __init__(self):
        super().__init__()
        nn = torch.nn
        self.expand = nn.Conv2d(3, 4, 1)
        self.bn_expand = nn.BatchNorm2d(4)
        self.block_b = nn.Conv2d(4, 4, 3, padding=1)
        self.bn_b = nn.BatchNorm2d(4)
        self.pool = nn.AdaptiveAvgPool2d(1)
        self.lin = nn.Linear(4, 2)

    def forward(self, x):
        x = torch.relu(self.bn_expand(self.expand(x)))
        y = torch.relu(self.bn_b(self.block_b(x)))
        y = torch.relu(self.bn_b(self.block_b(y)) + x)
        return self.lin(torch.flatten(self.pool(y), 1))


class _Prefix1d(torch.nn.Module):
    """conv1 (excluded by NAME, fed by the input) -> conv2 -> conv10 -> fc2 -> fc; 'conv1' is a string prefix of 'conv10'"""
    shape = (3, 8)
    exclude = ['conv1']

    def __init__(self):
        super().__init__()
        nn = torch.nn
        self.conv1 = nn.Conv1d(3, 4, 3, padding='same')
        self.conv2 = nn.Conv1d(4, 4, 3, padding='same')
        self.conv10 = nn.Conv1d(4, 3, 3, padding='same')
        self.pool = nn.AdaptiveAvgPool1d(1)
        self.fc2 = nn.Linear(3, 4)
        self.fc = nn.Linear(4, 2)

    def forward(self, x):
        x = torch.relu(self.conv1(x))
        x = torch.relu(self.conv2(x))
        x = torch.relu(self.conv10(x))
        x = torch.relu(self.fc2(torch.flatten(self.pool(x), 1)))
        return self.fc(x)


class _Squeeze2d1d(torch.nn.Module):
    """Conv2d with a (1, 5) kernel on a (6, 5) map -> (6, 1) -> squeeze of the LAST axis spelled with its positive index 3 -> Conv1d over the
    remaining axis -> flatten -> Linear (a 2D front-end feeding a 1D network)"""
    shape = (3, 6, 5)
    kw = False

    def __init__(self):
        super().__init__()
        nn = torch.nn
        self.front = nn.Conv2d(3, 4, (1, 5))
        self.tconv = nn.Conv1d(4, 3, 3, padding='same')
        self.fc = nn.Linear(3 * 6, 2)

    def forward(self, x):
        x = torch.relu(self.front(x))
        x = x.squeeze(dim=3) if self.kw else x.squeeze(3)
        x = torch.relu(self.tconv(x))
        return self.fc(torch.flatten(x, 1))


class _Squeeze2d1dKw(_Squeeze2d1d):
    __doc__ = _Squeeze2d1d.__doc__ + '; squeeze(dim=3)'
    kw = True


class _SharedPadNode(torch.nn.Module):
    """one ConstantPad1d call feeding TWO causally padded convs whose outputs are summed (the README's explicit left padding, shared)"""
    shape = (3, 8)

    def __init__(self):
        super().__init__()
        nn = torch.nn
        self.pad = nn.ConstantPad1d((4, 0), 0.)
        self.c1 = nn.Conv1d(3, 4, 5)
        self.c2 = nn.Conv1d(3, 4, 5)
        self.fc = nn.Linear(4 * 8, 2)

    def forward(self, x):
        p = self.pad(x)
        return self.fc(torch.flatten(torch.relu(self.c1(p) + self.c2(p)), 1))


class _SharedPadModule(torch.nn.Module):
    """one ConstantPad1d MODULE invoked at two call sites, in front of two convs in sequence"""
    shape = (3, 8)

    def __init__(self):
        super().__init__()
        nn = torch.nn
        self.pad = nn.ConstantPad1d((2, 0), 0.)
        self.c1 = nn.Conv1d(3, 4, 3)
        self.c2 = nn.Conv1d(4, 4, 3)
        self.fc = nn.Linear(4 * 8, 2)

    def forward(self, x):
        x = torch.relu(self.c1(self.pad(x)))
        x = torch.relu(self.c2(self.pad(x)))
        return self.fc(torch.flatten(x, 1))


HAND = {'sharedpad-node': _SharedPadNode, 'sharedpad-module': _SharedPadModule, 'tied1d': _Tied1d, 'tied2d': _Tied2d, 'prefix1d': _Prefix1d, 'squeeze2d1d': _Squeeze2d1d, 'squeeze2d1d-kw': _Squeeze2d1dKw}


def _run_hand(case, seed):
    from plinio.methods import PIT
    from plinio.methods.pit.nn.features_masker import PITFeaturesMasker, PITFrozenFeaturesMasker
    res = {'states': 0, 'transitions': 0, 'evals': 0, 'nontrivial': [], 'outcomes': set(), 'violations': []}
    base_case = {k: v for k, v in case.items() if k != 'only'}
    cls, fold = HAND[case['model']], case['fold_bn']
    torch.manual_seed(seed * 13 + 1)
    model = cls()
    with torch.no_grad():
        for m in model.modules():
            if isinstance(m, (torch.nn.BatchNorm1d, torch.nn.BatchNorm2d)):
                m.running_mean.normal_(0, 0.3)
                m.running_var.uniform_(0.5, 1.5)
                m.weight.uniform_(0.5, 1.5)
                m.bias.normal_(0, 0.3)
    model.eval()
    x = torch.randn((3,) + cls.shape, generator=torch.Generator().manual_seed(seed + 3))
    ssig = f'hand-{case["model"]}/fold={int(fold)}'
    try:
        pit = PIT(model, input_shape=cls.shape, fold_bn=fold, exclude_names=getattr(cls, 'exclude', ()))
    except Exception as e:
        res.update(states=1, evals=1, outcomes=['conversion-raises'])
        res['violations'].append({'kind': 'conversion-raises', 'sig': 'conversion-raises/' + ssig, 'msg': f'PIT() raised {type(e).__name__}: {e}', 'case': base_case})
        return res
    pit.eval()
    want = sorted(n for n, m in model.named_modules() if isinstance(m, (torch.nn.Conv1d, torch.nn.Conv2d, torch.nn.Linear))
                  and n not in getattr(cls, 'exclude', ()))
    got = sorted(n for n, _ in D.pit_layers(pit))
    if want != got:
        res['outcomes'].add('searchable-set-differs')
        res['violations'].append({'kind': 'searchable-set-differs', 'sig': 'searchable-set-differs/' + ssig,
                                  'msg': f'layers made searchable {got}, expected every conv / linear layer except the excluded names: {want}', 'case': base_case})
    fms, seen = [], set()
    for name, layer in D.pit_layers(pit):
        fm = layer.out_features_masker
        if id(fm) not in seen and type(fm) is PITFeaturesMasker:
            seen.add(id(fm))
            fms.append((name, fm))
    # complete channel lattice of every free masker (keep-alive channel excluded), the other maskers open
    labels = [{}]
    for i, (name, fm) in enumerate(fms):
        free = [c for c in range(fm.alpha.numel()) if float(fm._keep_alive[c]) == 0]
        for r in range(1, len(free) + 1):
            import itertools
            for off in itertools.combinations(free, r):
                labels.append({'masker': name, 'pruned': list(off)})
    # receptive field of every causally padded Conv1d (explicit ConstantPad1d + un-padded conv): every suffix, one conv at a time
    from plinio.methods.pit.nn.conv1d import PITConv1d
    from plinio.methods.pit.nn.timestep_masker import PITFrozenTimestepMasker
    tms = [(name, layer) for name, layer in D.pit_layers(pit) if isinstance(layer, PITConv1d)
           and not isinstance(layer.timestep_masker, PITFrozenTimestepMasker) and layer.padding in ('valid', 0, (0,)) and layer.kernel_size[0] > 1]
    for name, layer in tms:
        for keep in range(1, layer.kernel_size[0]):
            labels.append({'rf': name, 'keep': keep})
    only = case.get('only')
    for label in labels:
        if only is not None and only != label:
            continue
        with torch.no_grad():
            for name, fm in fms:
                fm.alpha.fill_(1.0)
                if label.get('masker') == name:
                    for c in label['pruned']:
                        fm.alpha[c] = 0.0
            for name, layer in tms:
                layer.timestep_masker.beta.fill_(1.0)
                if label.get('rf') == name:
                    layer.timestep_masker.beta[:-label['keep']] = 0.0
        res['states'] += 1
        res['transitions'] += len(label.get('pruned', []))
        res['evals'] += 1
        vcase = dict(base_case, only=label)
        try:
            with torch.no_grad():
                y_pit = pit(x)
                exp = D.export_with_bn(pit)
                exp.eval()
                y_exp = exp(x)
        except Exception as e:
            res['outcomes'].add('export-or-run-raises')
            res['violations'].append({'kind': 'export-or-run-raises', 'sig': 'export-or-run-raises/' + ssig,
                                      'msg': f'{label}: {type(e).__name__}: {str(e)[:300]}', 'case': vcase})
            continue
        ok, why = tol.out_close(y_pit, y_exp)
        if not ok:
            res['outcomes'].add('output-differs')
            res['violations'].append({'kind': 'output-differs', 'sig': 'output-differs/' + ssig,
                                      'msg': f'{label}: PIT.eval()(x) vs export().eval()(x): {why}', 'case': vcase})
        else:
            res['outcomes'].add('equal' if label else 'equal-unpruned')
        if label:
            res['nontrivial'].append(f'{ssig}/{label}')
    res['outcomes'] = sorted(res['outcomes'])
    res['sample'] = {'model': case['model'], 'doc': cls.__doc__, 'fold_bn': fold, 'free_maskers': [n for n, _ in fms], 'configurations': len(labels)}
    return res


def run_case(case, seed):
    if case.get('kind') == 'hand':
        return _run_hand(case, seed)
    prog, fold = case['prog'], case['fold_bn']
    tier = case.get('tier', 'quick')
    b = bounds(tier)
    res = {'states': 0, 'transitions': 0, 'evals': 0, 'nontrivial': [], 'outcomes': set(), 'violations': []}
    ctx = D.make_pit(prog, seed, fold_bn=fold)
    base_case = {'prog': prog, 'fold_bn': fold, 'tier': tier}
    if 'error' in ctx:
        res['states'] = 1
        res['evals'] = 1
        res['outcomes'] = ['conversion-raises']
        res['violations'].append({'kind': 'conversion-raises', 'sig': 'conversion-raises/' + _shape_sig(prog, fold),
                                  'msg': f'PIT() raised {type(ctx["error"]).__name__}: {ctx["error"]}', 'case': base_case})
        return res
    pit, x = ctx['pit'], ctx['x']
    # on a (deterministic) third of the programs - not the third C09 uses - the whole lattice is explored on a deep COPY of the converted
    # model (a snapshot / EMA copy / a copy handed to another process), the original being kept alive and untouched with all masks open:
    # the copy must be self-contained, what it evaluates and what it exports must follow ITS masks
    import copy
    import hashlib
    import json
    dc = int(hashlib.sha1(json.dumps(prog, sort_keys=True).encode()).hexdigest(), 16) % 3 == 2
    if dc:
        ctx['original_kept_alive'] = pit
        try:
            pit = copy.deepcopy(pit)
        except Exception as e:
            res.update(states=1, evals=1, outcomes=['deepcopy-raises'])
            res['violations'].append({'kind': 'deepcopy-raises', 'sig': 'deepcopy-raises/' + _shape_sig(prog, fold),
                                      'msg': f'copy.deepcopy(PIT(model)) raised {type(e).__name__}: {str(e)[:200]}', 'case': base_case})
            return res
    pit.eval()
    els = D.elements(pit, prog)
    if case.get('cfg') is not None:
        cfgs, complete = [D.cfg_from_desc(els, case['cfg'])], False
    else:
        cfgs, complete = D.enum_configs(els, b['mask_deviation_bound'], b['complete_lattice_cap'])
    # abstraction A1 is itself exercised: every abstract configuration is realised with several real-valued representatives
    # (exact 0/1, values just across the threshold, negative, huge) - all four for the kernel family K when a time mask is
    # pruned, rotating otherwise
    isK = prog.get('family') == 'K'
    dcs, dcm = ('/on-deep-copy', ' [explored on a deep copy, original kept alive with all masks open]') if dc else ('', '')
    work = []
    for n, cfg in enumerate(cfgs):
        timed = any(els[i]['kind'] in ('rf', 'dil') for i in cfg)
        if case.get('rep') is not None:
            reps = [case['rep']]
        elif isK and timed:
            reps = [0, 1, 2, 3]
        else:
            reps = [n % 4]
        work += [(cfg, r) for r in reps]
    for cfg, rep in work:
        D.apply_config(els, cfg, rep=rep, via_data=res['states'] % 2 == 1)
        res['states'] += 1
        res['transitions'] += len(cfg)
        res['evals'] += 1
        desc = D.describe(els, cfg)
        kinds = ''.join(sorted({els[i]['kind'][0] for i in cfg}))
        vcase = dict(base_case, cfg=desc, rep=rep)
        try:
            with torch.no_grad():
                y_pit = pit(x)
                exp = D.export_with_bn(pit)
                exp.eval()
                y_exp = exp(x)
        except Exception as e:
            res['outcomes'].add('export-or-run-raises')
            res['violations'].append({'kind': 'export-or-run-raises', 'sig': f'export-or-run-raises/{kinds}/' + _shape_sig(prog, fold) + dcs,
                                      'msg': f'cfg={desc} rep={rep}{dcm}: {type(e).__name__}: {str(e)[:300]}', 'case': vcase})
            continue
        ok, why = tol.out_close(y_pit, y_exp)
        if not ok:
            res['outcomes'].add('output-differs')
            sig = f'output-differs/{kinds}/' + _shape_sig(prog, fold) + dcs
            # causal attribution to D25: insert the BN export() forgot at repeated call sites; if that alone
            # removes the mismatch the case is the listed finding, otherwise it is something else
            try:
                if D.repair_repeated_bn(exp) > 0:
                    with torch.no_grad():
                        ok2, _ = tol.out_close(y_pit, exp(x))
                    if ok2:
                        sig = 'output-differs/bn-missing-at-repeated-call-site'
            except Exception:
                pass
            res['violations'].append({'kind': 'output-differs', 'sig': sig,
                                      'msg': f'cfg={desc} rep={rep}{dcm}: PIT.eval()(x) vs export().eval()(x): {why}', 'case': vcase})
        bad = D.struct_check(pit, exp, prog)
        if bad:
            res['outcomes'].add('structure-differs')
            res['violations'].append({'kind': 'structure-differs', 'sig': f'structure-differs/{kinds}/' + _shape_sig(prog, fold) + dcs,
                                      'msg': f'cfg={desc} rep={rep}{dcm}: ' + '; '.join(bad[:4]), 'case': vcase})
        if ok and not bad:
            res['outcomes'].add('equal' if cfg else 'equal-unpruned')
        if cfg:
            res['nontrivial'].append(_key(prog, fold, [desc, rep]))
    res['outcomes'] = sorted(res['outcomes'])
    res['sample'] = {'prog': prog, 'fold_bn': fold, 'explored_on_deep_copy': dc, 'n_elements': len(els), 'n_configs': len(cfgs), 'complete_lattice': complete,
                     'last_cfg': D.describe(els, cfgs[-1])}
    return res


def _key(prog, fold, desc):
    import hashlib
    import json
    return hashlib.sha1(json.dumps([prog, fold, desc], sort_keys=True).encode()).hexdigest()[:16]


def _shape_sig(prog, fold):
    """coarse structural class of a program, for violation signatures"""
    ops = '+'.join(sorted({s['op'] + ('-dw' if s.get('dw') else '') for s in prog['stages']}))
    return f"{prog['dim']}d/{ops}/{prog['head']['kind']}/fold={int(fold)}"
