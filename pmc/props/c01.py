"""C01 - PIT export computes the same function as the searched (masked) network.

Configuration-lattice explorer on the real PIT: programs of G_pit and of the kernel family K, every
abstract mask configuration within the tier's deviation bound (complete lattice when small), each one
realised on the real alpha/beta/gamma parameters, exported with the real export(), BN statistics
transferred as the statement prescribes, and the two networks compared on the witness batch together
with the structural agreement summary() <-> exported hyper-parameters.
"""
import torch

from .. import pitdrv as D
from .. import tol
from ..grammar import pit as G

PID = 'C01'
RULE = ('programs: kernel family K (producer conv -> causally padded Conv1d with every k in 1..9, d in 1..3, s in 1..2, bias, '
        'BN, fold_bn -> flatten -> linear) and grammar G_pit (all stage sequences up to the depth bound x 3 heads x 1D/2D, plus all '
        'single-option deviations); configurations: complete (channel-mask x RF-suffix x dilation-level) lattice when it has '
        '<= cap states, otherwise every configuration within d single-element deviations of "all open" plus the all-minimum corners; '
        'non-trivial = a (program, configuration) pair with at least one pruned element')
ASSUMPTIONS = ['"on every input" is decided on a seeded generic witness batch of 3 inputs (DESIGN.md A3)',
               'binarisation abstraction A1 (eval-mode forward/export depend on mask parameters only through the binarised theta) is '
               'exercised rather than assumed: 4 real-valued representatives per abstract configuration ' + str(list(zip(D.PRUNED_REPS, D.KEPT_REPS))) +
               ' (all four on family K when a time mask is pruned, rotating elsewhere)',
               'RF/dilation moves only on causally left-padded stride-1 Conv1d (scope of the statement)',
               'programs with the structures of findings D4/D5/D24 (cat->depthwise, excluded layers, cat + conv(cat)) are checked under C09']


def bounds(tier):
    return {'quick': {'G_depth': 2, 'option_deviations': 1, 'mask_deviation_bound': 2, 'complete_lattice_cap': 96, 'K_kmax': 9},
            'thorough': {'G_depth': 3, 'option_deviations': 1, 'mask_deviation_bound': 2, 'complete_lattice_cap': 1024,
                         'K_kmax': 9}}[tier]


def cases(tier, seed):
    out = []
    for p in G.gen_K(9):
        out.append({'prog': p, 'fold_bn': False})
        if p['stages'][1]['bn']:
            out.append({'prog': p, 'fold_bn': True})
    depth = 2 if tier == 'quick' else 3
    base = G.gen_base(depth)
    progs = list(base)
    for p in G.gen_base(1):
        progs += G.option_deviations(p)
    if tier == 'thorough':
        progs += [q for p in G.gen_base(2) if len(p['stages']) == 2 and p['head']['kind'] == 'flatlin' for q in G.option_deviations(p)]
    progs += G.gen_special()
    for p in progs:
        if G.structure_flags(p):
            continue
        out.append({'prog': p, 'fold_bn': False})
        if G.has_bn(p):
            out.append({'prog': p, 'fold_bn': True})
    for c in out:
        c['tier'] = tier
    return out


def run_case(case, seed):
    prog, fold = case['prog'], case['fold_bn']
    tier = case.get('tier', 'quick')
    b = bounds(tier)
    res = {'states': 0, 'transitions': 0, 'evals': 0, 'nontrivial': [], 'outcomes': set(), 'violations': []}
    ctx = D.make_pit(prog, seed, fold_bn=fold)
    base_case = {'prog': prog, 'fold_bn': fold, 'tier': tier}
    if 'error' in ctx:
        res['states'] = 1
        res['evals'] = 1
        res['outcomes'] = ['conversion-raises']
        res['violations'].append({'kind': 'conversion-raises', 'sig': 'conversion-raises/' + _shape_sig(prog, fold),
                                  'msg': f'PIT() raised {type(ctx["error"]).__name__}: {ctx["error"]}', 'case': base_case})
        return res
    pit, x = ctx['pit'], ctx['x']
    pit.eval()
    els = D.elements(pit, prog)
    if case.get('cfg') is not None:
        cfgs, complete = [D.cfg_from_desc(els, case['cfg'])], False
    else:
        cfgs, complete = D.enum_configs(els, b['mask_deviation_bound'], b['complete_lattice_cap'])
    # abstraction A1 is itself exercised: every abstract configuration is realised with several real-valued representatives
    # (exact 0/1, values just across the threshold, negative, huge) - all four for the kernel family K when a time mask is
    # pruned, rotating otherwise
    isK = prog.get('family') == 'K'
    work = []
    for n, cfg in enumerate(cfgs):
        timed = any(els[i]['kind'] in ('rf', 'dil') for i in cfg)
        if case.get('rep') is not None:
            reps = [case['rep']]
        elif isK and timed:
            reps = [0, 1, 2, 3]
        else:
            reps = [n % 4]
        work += [(cfg, r) for r in reps]
    for cfg, rep in work:
        D.apply_config(els, cfg, rep=rep, via_data=res['states'] % 2 == 1)
        res['states'] += 1
        res['transitions'] += len(cfg)
        res['evals'] += 1
        desc = D.describe(els, cfg)
        kinds = ''.join(sorted({els[i]['kind'][0] for i in cfg}))
        vcase = dict(base_case, cfg=desc, rep=rep)
        try:
            with torch.no_grad():
                y_pit = pit(x)
                exp = D.export_with_bn(pit)
                exp.eval()
                y_exp = exp(x)
        except Exception as e:
            res['outcomes'].add('export-or-run-raises')
            res['violations'].append({'kind': 'export-or-run-raises', 'sig': f'export-or-run-raises/{kinds}/' + _shape_sig(prog, fold),
                                      'msg': f'cfg={desc} rep={rep}: {type(e).__name__}: {str(e)[:300]}', 'case': vcase})
            continue
        ok, why = tol.out_close(y_pit, y_exp)
        if not ok:
            res['outcomes'].add('output-differs')
            sig = f'output-differs/{kinds}/' + _shape_sig(prog, fold)
            # causal attribution to D25: insert the BN export() forgot at repeated call sites; if that alone
            # removes the mismatch the case is the listed finding, otherwise it is something else
            try:
                if D.repair_repeated_bn(exp) > 0:
                    with torch.no_grad():
                        ok2, _ = tol.out_close(y_pit, exp(x))
                    if ok2:
                        sig = 'output-differs/bn-missing-at-repeated-call-site'
            except Exception:
                pass
            res['violations'].append({'kind': 'output-differs', 'sig': sig,
                                      'msg': f'cfg={desc} rep={rep}: PIT.eval()(x) vs export().eval()(x): {why}', 'case': vcase})
        bad = D.struct_check(pit, exp, prog)
        if bad:
            res['outcomes'].add('structure-differs')
            res['violations'].append({'kind': 'structure-differs', 'sig': f'structure-differs/{kinds}/' + _shape_sig(prog, fold),
                                      'msg': f'cfg={desc} rep={rep}: ' + '; '.join(bad[:4]), 'case': vcase})
        if ok and not bad:
            res['outcomes'].add('equal' if cfg else 'equal-unpruned')
        if cfg:
            res['nontrivial'].append(_key(prog, fold, [desc, rep]))
    res['outcomes'] = sorted(res['outcomes'])
    res['sample'] = {'prog': prog, 'fold_bn': fold, 'n_elements': len(els), 'n_configs': len(cfgs), 'complete_lattice': complete,
                     'last_cfg': D.describe(els, cfgs[-1])}
    return res


def _key(prog, fold, desc):
    import hashlib
    import json
    return hashlib.sha1(json.dumps([prog, fold, desc], sort_keys=True).encode()).hexdigest()[:16]


def _shape_sig(prog, fold):
    """coarse structural class of a program, for violation signatures"""
    ops = '+'.join(sorted({s['op'] + ('-dw' if s.get('dw') else '') for s in prog['stages']}))
    return f"{prog['dim']}d/{ops}/{prog['head']['kind']}/fold={int(fold)}"
