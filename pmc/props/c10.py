"""C10 - what is evaluated, what is reported and what is exported are the same choice.

Two families of cases, both executed on the real code:
 (A) sampler lattice: stand-alone MPSPerLayerQtz (1..8 precisions), MPSPerChannelQtz (up to 8 x 16) and SuperNetCombiner
     (2..8 branches); EVERY arg-max position (per channel: every column pattern from a rotating family) x 3 value
     representatives with pairwise gaps >= 0.05 x temperatures {0.05, 1, 20} x hard x gumbel x disable_sampling x train/eval;
     the coefficients sampled by the object's own forward are compared with the reference sampler.
 (B) history explorer on a small MPS model (per-layer and per-channel) and SuperNets: BFS over fully specified option tuples,
     train(), eval(), forward and coefficient re-assignments; after every history the sampled coefficients read through the
     public API must satisfy the reference conditions and their arg-max must be what summary() reports and export()
     materialises.
"""
import itertools

import torch
import torch.nn.functional as Fn

from .. import fixtures as F
from .. import history as H

PID = 'C10'
RULE = ('(A) stand-alone samplers: per-layer quantizers with 1..8 precisions, per-channel quantizers P x C for P in 2..8, C in {1,3,16}, combiners with '
        '2..8 branches; every arg-max position x 3 representatives (gaps 0.05 / mixed sign / large magnitude) x T in {0.05,1,20} x hard x gumbel x '
        'disable_sampling x train/eval (complete product); (B) BFS over histories up to the depth bound over {fully specified option tuples, '
        'train, eval, train+forward, eval+forward, 3 coefficient assignments}, each state observed in its own mode and after a switch to the other mode, on MPS per-layer / per-channel models and two SuperNets; oracle: probability vector, one-hot at '
        'arg-max(raw) in eval or train+hard+non-gumbel, gumbel+train: probability vector and one-hot iff hard, disabled: unchanged; arg-max == '
        'summary() == export(); non-trivial = a case with more than one alternative')
ASSUMPTIONS = ['coefficient vectors have pairwise gaps >= 0.05 (precondition of the statement); temperatures in [0.05, 20]',
               'Gumbel noise is owned by seeding the RNG; only the stated structural facts are asserted for Gumbel samples',
               'with disable_sampling the expected coefficients are "unchanged since the last sample" (DESIGN.md section 5)']

TEMPS = [0.05, 1.0, 20.0]


def bounds(tier):
    return {'quick': {'history_depth': 3, 'per_layer_len': '1..8', 'per_channel': 'P 2..8 x C {1,3,16}', 'branches': '2..8'},
            'thorough': {'history_depth': 4, 'per_layer_len': '1..8', 'per_channel': 'P 2..8 x C {1,3,16}', 'branches': '2..12'}}[tier]


def cases(tier, seed):
    out = []
    for n in range(1, 9):
        out.append({'fam': 'A', 'kind': 'perlayer', 'n': n, 'tier': tier})
    for n in range(2, 9 if tier == 'quick' else 13):
        out.append({'fam': 'A', 'kind': 'combiner', 'n': n, 'tier': tier})
        out.append({'fam': 'A', 'kind': 'combiner-gumbel', 'n': n, 'tier': tier})
    for P in range(2, 9):
        for C in (1, 3, 16):
            out.append({'fam': 'A', 'kind': 'perchannel', 'n': P, 'C': C, 'tier': tier})
    for method, name, kw in [('mps', 'mps_a', {}), ('mps', 'mps_b', {'per_channel': True}), ('mps', 'mps_twoin', {}), ('sn', 'sn_a', {}), ('sn', 'sn_gumbel', {})]:
        for first in _hist_alphabet(method, tier) + [None]:
            out.append({'fam': 'B', 'method': method, 'model': name, 'kw': kw, 'first': first, 'tier': tier})
    return out


# ----------------------------------------------------------------------------------------------
# reference
# ----------------------------------------------------------------------------------------------
def _check_theta(theta, alpha, opts, training, prev, is_sn):
    """-> list of (kind, msg).  theta/alpha: (n,) or (n, C)"""
    bad = []
    th = theta.detach()
    if opts['dis'] and not is_sn:
        if prev is not None and not torch.equal(th, prev):
            bad.append(('disabled-sampling-changed', f'sampling disabled but coefficients changed from {prev.flatten()[:4].tolist()} to {th.flatten()[:4].tolist()}'))
        return bad
    if not torch.isfinite(th).all() or (th < 0).any():
        bad.append(('not-a-probability-vector', f'negative or non-finite coefficients {th.flatten()[:6].tolist()}'))
        return bad
    sums = th.sum(dim=0)
    if not torch.allclose(sums, torch.ones_like(sums), atol=1e-5):
        bad.append(('not-a-probability-vector', f'coefficients sum to {sums.flatten()[:4].tolist()}'))
    am = torch.argmax(alpha.detach(), dim=0)
    onehot = Fn.one_hot(am, num_classes=alpha.shape[0]).to(torch.float32)
    if onehot.dim() == 2:
        onehot = onehot.t()
    is_onehot = bool(((th == 0) | (th == 1)).all()) and bool((th.sum(dim=0) == 1).all())
    gum = opts['gumbel'] and training
    if gum:
        # the statement says "one-hot if hard" (a soft Gumbel sample may legitimately saturate to 0/1 in float32 at low temperature)
        if opts['hard'] and not is_onehot:
            bad.append(('gumbel-hard-not-one-hot', f'hard gumbel training sample is not one-hot: {th.flatten()[:6].tolist()}'))
    elif (not training) or opts['hard']:
        if not torch.equal(th, onehot):
            where = 'eval mode' if not training else 'hard non-gumbel training'
            bad.append(('not-one-hot-at-argmax', f'{where}: sampled {th.flatten()[:8].tolist()} but arg-max(raw) one-hot is {onehot.flatten()[:8].tolist()}'))
    else:
        want = Fn.softmax(alpha.detach() / opts['temperature'], dim=0)
        if not torch.allclose(th, want, atol=1e-6):
            bad.append(('soft-sample-differs', f'sampled {th.flatten()[:4].tolist()} vs softmax(raw/T) {want.flatten()[:4].tolist()}'))
    return bad


def _reps(n, pos):
    """3 tie-free representatives of 'arg-max at pos' for a vector of length n (pairwise gaps >= 0.05)"""
    others = [i for i in range(n) if i != pos]
    r1 = torch.zeros(n)
    for rank, i in enumerate(others):
        r1[i] = 0.05 * rank
    r1[pos] = 0.05 * len(others) + 0.05 if n > 1 else 0.3
    r2 = torch.zeros(n)           # mixed sign, descending others
    for rank, i in enumerate(reversed(others)):
        r2[i] = -1.0 - 0.7 * rank
    r2[pos] = 0.25
    r3 = torch.zeros(n)           # large magnitude, alternating
    for rank, i in enumerate(others):
        r3[i] = 50.0 + (3.0 * rank if rank % 2 else -2.0 * rank)
    r3[pos] = 50.0 + 3.0 * n + 1.0
    return [r1, r2, r3]


# ----------------------------------------------------------------------------------------------
# family A
# ----------------------------------------------------------------------------------------------
def _run_A(case, seed):
    from plinio.methods.mps.nn.qtz import MPSPerLayerQtz, MPSPerChannelQtz
    from plinio.methods.mps.quant.quantizers import PACTAct, MinMaxWeight
    from plinio.methods.supernet.nn.combiner import SuperNetCombiner
    kind, n = case['kind'], case['n']
    res = {'states': 0, 'transitions': 0, 'evals': 0, 'nontrivial': [], 'outcomes': set(), 'violations': []}
    C = case.get('C', 1)
    only = case.get('only')

    def mk(opts):
        if kind == 'perlayer':
            m = MPSPerLayerQtz(tuple(range(1, n + 1)) if n > 3 else (2, 4, 8)[:n], PACTAct, {'cout': 3},
                               softmax_temperature=opts['temperature'], hard_softmax=opts['hard'], gumbel_softmax=opts['gumbel'],
                               disable_sampling=opts['dis'])
        elif kind == 'perchannel':
            m = MPSPerChannelQtz(tuple(range(0, n)) if n > 4 else (0, 2, 4, 8)[:n], MinMaxWeight, {'cout': C},
                                 softmax_temperature=opts['temperature'], hard_softmax=opts['hard'], gumbel_softmax=opts['gumbel'],
                                 disable_sampling=opts['dis'])
        else:
            m = SuperNetCombiner(n, kind == 'combiner-gumbel', opts['hard'])
            m.softmax_temperature = opts['temperature']
        return m

    def call(m):
        with torch.no_grad():
            if kind == 'perlayer':
                m(torch.full((2, 3, 2, 2), 0.3))
            elif kind == 'perchannel':
                m(torch.linspace(-1, 1, C * 2 * 3 * 3).reshape(C, 2, 3, 3))
            else:
                m([torch.zeros(1, 2) for _ in range(n)])

    is_sn = kind.startswith('combiner')
    optgrid = []
    for T in TEMPS:
        for hard in (False, True):
            if is_sn:
                optgrid.append({'temperature': T, 'hard': hard, 'gumbel': kind == 'combiner-gumbel', 'dis': False})
            else:
                for gumbel in (False, True):
                    for dis in (False, True):
                        optgrid.append({'temperature': T, 'hard': hard, 'gumbel': gumbel, 'dis': dis})
    positions = list(range(n)) if kind != 'perchannel' else list(range(n))
    for opts in optgrid:
        for training in (True, False):
            for pos in positions:
                for ri, rep in enumerate(_reps(n, pos)):
                    label = {'opts': opts, 'training': training, 'pos': pos, 'rep': ri}
                    if only is not None and only != label:
                        continue
                    m = mk(opts)
                    m.train(training)
                    if kind == 'perchannel':
                        # column c has its arg-max at (pos + c) mod n: every position occurs, columns differ
                        a = torch.stack([_reps(n, (pos + c) % n)[(ri + c) % 3] for c in range(C)], dim=1)
                    else:
                        a = rep
                    with torch.no_grad():
                        m.alpha.copy_(a)
                    prev = m.theta_alpha.detach().clone()
                    torch.manual_seed(seed * 131 + 7)
                    try:
                        call(m)
                    except Exception as e:
                        res['violations'].append({'kind': 'sampler-raises', 'sig': f'sampler-raises/{kind}', 'msg': f'{label}: {type(e).__name__}: {e}',
                                                  'case': dict(case, only=label)})
                        continue
                    res['states'] += 1
                    res['transitions'] += 1
                    res['evals'] += 1
                    bad = _check_theta(m.theta_alpha, m.alpha, opts, training, prev, is_sn)
                    for k, msg in bad:
                        res['outcomes'].add(k)
                        mode = 'eval' if not training else 'train'
                        sig = f'{k}/{kind}/{mode}/hard={int(opts["hard"])}' + (f'/gumbel={int(opts["gumbel"])}' if not is_sn else '')
                        res['violations'].append({'kind': k, 'sig': sig, 'msg': f'{kind} n={n} C={C} {label} alpha={a.flatten()[:8].tolist()}: {msg}',
                                                  'case': dict(case, only=label)})
                    if not bad:
                        res['outcomes'].add('conforms')
                    # the reported / exported choice is the arg-max of the raw coefficients
                    if is_sn:
                        if m.best_layer_index() != pos:
                            res['violations'].append({'kind': 'selected-not-argmax', 'sig': f'selected-not-argmax/{kind}',
                                                      'msg': f'{label}: best_layer_index()={m.best_layer_index()} != {pos}', 'case': dict(case, only=label)})
                    if n > 1:
                        res['nontrivial'].append(f'{kind}/{n}/{C}/{opts["temperature"]}/{opts["hard"]}/{opts["gumbel"]}/{opts["dis"]}/{training}/{pos}/{ri}')
    res['outcomes'] = sorted(res['outcomes'])
    res['sample'] = {'kind': kind, 'n': n, 'C': C, 'example_alpha': _reps(n, 0)[0].tolist(), 'option_tuples': len(optgrid)}
    return res


# ----------------------------------------------------------------------------------------------
# family B
# ----------------------------------------------------------------------------------------------
def _hist_alphabet(method, tier='quick'):
    ops = ['train', 'eval', 'train+fwd', 'eval+fwd', 'coef0', 'coef1', 'coef2']
    for T in (TEMPS if tier == 'thorough' else [0.05, 20.0]):
        for hard in (0, 1):
            if method == 'mps':
                for g, d in ((0, 0), (1, 0), (0, 1)):
                    ops.append(f'opt:{T}:{hard}:{g}:{d}')
            else:
                ops.append(f'opt:{T}:{hard}')
    return ops


def _make_B(case, seed):
    from plinio.cost import params, params_bit
    kw = dict(case['kw'])
    if kw.pop('per_channel', False):
        from plinio.methods.mps import MPSType
        kw['w_search_type'] = MPSType.PER_CHANNEL
    nas, x, _ = F.make(case['method'], case['model'], seed, train=True, cost=params_bit if case['method'] == 'mps' else params, **kw)
    nas.train()
    return nas, x


def _samplers(nas, method):
    out, seen = [], set()
    if method == 'mps':
        from plinio.methods.mps.nn.qtz import MPSBaseQtz
        for n, m in nas.named_modules():
            if isinstance(m, MPSBaseQtz) and id(m) not in seen and m.alpha.shape[0] > 1:
                seen.add(id(m))
                out.append((n, m))
    else:
        from plinio.methods.supernet.nn.combiner import SuperNetCombiner
        for n, m in nas.named_modules():
            if isinstance(m, SuperNetCombiner):
                out.append((n, m))
    return out


def _set_coef(nas, method, which):
    with torch.no_grad():
        for i, (_, m) in enumerate(_samplers(nas, method)):
            n = m.alpha.shape[0]
            pos = (which + i) % n
            if m.alpha.dim() == 2:
                t = torch.stack([_reps(n, (pos + c) % n)[(which + c) % 3] for c in range(m.alpha.shape[1])], dim=1)
            else:
                t = _reps(n, pos)[which % 3]
            # in-place copy / `.data` re-assignment / copy into `.data` (the latter two do not bump the version counter)
            if which % 3 == 0:
                m.alpha.copy_(t)
            elif which % 3 == 1:
                m.alpha.data = t.clone()
            else:
                m.alpha.data.copy_(t)


def _run_B(case, seed):
    tier = case.get('tier', 'quick')
    depth = bounds(tier)['history_depth']
    method = case['method']
    base_case = {k: v for k, v in case.items() if k != 'history'}
    evals = [0]
    nontrivial = set()
    first = case.get('first')
    is_sn = method == 'sn'

    def run(hist):
        viol = []

        def add(kind, sig, msg):
            viol.append({'kind': kind, 'sig': sig, 'msg': f'{case["model"]}: history {list(hist)}: {msg}', 'case': dict(base_case, history=list(hist))})

        nas, x = _make_B(case, seed)
        opts = {'temperature': 1.0, 'hard': False, 'gumbel': case['model'] == 'sn_gumbel', 'dis': False}
        nf = 0
        try:
            for op in hist:
                if op == 'train':
                    nas.train()
                elif op == 'eval':
                    nas.eval()
                elif op in ('train+fwd', 'eval+fwd'):
                    nas.train(op == 'train+fwd')
                    nf += 1
                    torch.manual_seed(300 + nf)
                    F.call(nas, x)
                elif op.startswith('coef'):
                    _set_coef(nas, method, int(op[4:]))
                elif op.startswith('opt:'):
                    f = op.split(':')
                    if method == 'mps':
                        nas.update_softmax_options(temperature=float(f[1]), hard=bool(int(f[2])), gumbel=bool(int(f[3])), disable_sampling=bool(int(f[4])))
                        opts.update(temperature=float(f[1]), hard=bool(int(f[2])), gumbel=bool(int(f[3])), dis=bool(int(f[4])))
                    else:
                        nas.update_softmax_options(temperature=float(f[1]), hard=bool(int(f[2])))
                        opts.update(temperature=float(f[1]), hard=bool(int(f[2])))
            # the observation: one more (seeded) forward, then read everything through the public API
            prevs = {n: m.theta_alpha.detach().clone() for n, m in _samplers(nas, method)}
            torch.manual_seed(999)
            with torch.no_grad():
                F.call(nas, x)
        except Exception as e:
            add('operation-raises', f'operation-raises/{method}', f'{type(e).__name__}: {str(e)[:200]}')
            return {'key': ('raise',) + tuple(hist), 'violations': viol, 'outcome': 'raises'}
        evals[0] += 1
        nontrivial.add(f'{case["model"]}/' + '.'.join(hist))
        training = nas.training
        mode = 'eval' if not training else 'train'
        keyparts = []
        for n, m in _samplers(nas, method):
            bad = _check_theta(m.theta_alpha, m.alpha, opts, training, prevs[n], is_sn)
            for k, msg in bad[:1]:
                sig = f'{k}/{"combiner" if is_sn else "mps"}/{mode}/hard={int(opts["hard"])}' + (f'/gumbel={int(opts["gumbel"])}' if not is_sn else '')
                add(k, sig, f'{n} with options {opts}: {msg}')
            keyparts.append(tuple(round(float(v), 4) for v in m.theta_alpha.flatten().tolist()))
        # ... and once more after switching to the OTHER mode (the observation is two steps deep: a sample that survives a mode
        # switch - e.g. a cached eval-mode one-hot or a left-over Gumbel sample - shows here)
        try:
            prevs2 = {n: m.theta_alpha.detach().clone() for n, m in _samplers(nas, method)}
            nas.train(not training)
            torch.manual_seed(1001)
            with torch.no_grad():
                F.call(nas, x)
            mode2 = 'eval' if training else 'train'
            for n, m in _samplers(nas, method):
                bad = _check_theta(m.theta_alpha, m.alpha, opts, not training, prevs2[n], is_sn)
                for k, msg in bad[:1]:
                    sig = f'{k}/{"combiner" if is_sn else "mps"}/{mode2}/hard={int(opts["hard"])}' + (f'/gumbel={int(opts["gumbel"])}' if not is_sn else '')
                    add(k, sig, f'after switching to {mode2} mode: {n} with options {opts}: {msg}')
            nas.train(training)
        except Exception as e:
            add('operation-raises', f'operation-raises/{method}', f'mode switch + forward: {type(e).__name__}: {str(e)[:200]}')
        # reported == exported == arg-max(raw)
        try:
            summ = nas.summary()
            exp = nas.export() if not case['kw'].get('per_channel') else None
            if method == 'mps':
                for lname, s in summ.items():
                    layer = nas.seed.get_submodule(lname)
                    for role, q in (('out_precision', getattr(layer, 'out_mps_quantizer', None)), ('w_precision', getattr(layer, 'w_mps_quantizer', None))):
                        if q is None or role not in s or q.alpha.shape[0] < 1:
                            continue
                        am = torch.argmax(q.alpha.detach(), dim=0)
                        want = [int(q.precision[int(i)]) for i in am] if am.dim() == 1 else int(q.precision[int(am)])
                        if s[role] != want:
                            add('summary-not-argmax', 'summary-not-argmax/mps', f'{lname}.{role}: summary {s[role]} vs arg-max precision {want}')
                        if exp is not None:
                            e = exp.get_submodule(lname)
                            eq = getattr(e, 'out_quantizer' if role == 'out_precision' else 'w_quantizer', None)
                            if eq is not None and hasattr(eq, 'precision') and int(eq.precision) != want:
                                add('export-not-argmax', 'export-not-argmax/mps', f'{lname}.{role}: exported precision {int(eq.precision)} vs arg-max {want}')
            else:
                for (cn, m) in _samplers(nas, method):
                    cn = cn[len('seed.'):] if cn.startswith('seed.') else cn
                    s = summ[cn]['supernet_branches']
                    rep = [s[f'branch_{i}']['alpha'] for i in range(m.n_branches)]
                    am = int(torch.argmax(m.alpha.detach()))
                    if not (opts['gumbel'] and training):
                        if max(range(len(rep)), key=lambda i: rep[i]) != am:
                            add('summary-not-argmax', 'summary-not-argmax/sn', f'{cn}: summary reports {rep}, arg-max(raw) is branch {am}')
                    block = cn.rsplit('.', 1)[0]
                    alive = sorted({int(nm[len(block) + len('.sn_branches.'):].split('.')[0]) for nm, _ in exp.named_modules()
                                    if nm.startswith(block + '.sn_branches.')})
                    ident = type(nas.seed.get_submodule(f'{block}.sn_branches.{am}')).__name__ == 'Identity'
                    if alive != ([] if ident else [am]):
                        add('export-not-argmax', 'export-not-argmax/sn', f'{cn}: exported network keeps branches {alive}, arg-max(raw) is branch {am}')
        except Exception as e:
            import traceback
            add('summary-or-export-raises', f'summary-or-export-raises/{method}', f'{type(e).__name__}: {str(e)[:200]} {traceback.format_exc()[-300:]}')
        key = (tuple(keyparts), training, tuple(sorted(opts.items())),
               tuple(tuple(round(float(v), 3) for v in m.alpha.flatten().tolist()) for _, m in _samplers(nas, method)))
        return {'key': key, 'violations': viol, 'outcome': 'differs' if viol else 'conforms'}

    alpha = _hist_alphabet(method, tier)

    def alphabet(hist):
        if not hist:
            return [first] if first is not None else []
        return alpha

    only = tuple(case['history']) if case.get('history') is not None else None
    r = H.bfs(run, alphabet, depth, only=only)
    return {'states': r['states'], 'transitions': r['transitions'], 'evals': evals[0], 'nontrivial': sorted(nontrivial),
            'outcomes': list(r['outcomes']), 'violations': r['violations'],
            'sample': {'model': case['model'], 'first_op': first, 'alphabet_size': len(alpha), 'closed': r['closed'],
                       'depth_reached': r['depth_reached'], 'executions': r['executions'],
                       'histories_reaching_new_states': r.get('sample_histories')}}


def run_case(case, seed):
    return _run_A(case, seed) if case['fam'] == 'A' else _run_B(case, seed)
