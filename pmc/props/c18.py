"""C18 - export, summary and cost are observers: they do not change the model.

History explorer.  Alphabet: export, export(add_bn=False) (PIT), summary, cost / get_cost(name) (whichever the current
specification allows), cost_specification := other / := original, forward.  A state is rebuilt by replaying the
history on a fresh model; its canonical abstract state is a PROBE of everything the property names (training flags of
every module, state_dict, cost values, summary, two exports, a seeded forward, one training step).  Oracle: the probe
after a history equals the probe after its TWIN history - the same history with every observer removed (only the
forwards, and the specification it ends with).  Because states that probe identically are merged, the search closes
after a few states on a healthy tree; any observer with a side effect opens new states and is reported.

Round 7 alphabet extensions:
 * SPLIT TRAINING STEP: `step_open` (seeded forward, the output is kept) and `step_close` (loss = task_loss(kept output) + cost,
   backward, SGD step on the parameter objects captured at construction) are separate letters, so that the observers of a history
   can sit BETWEEN the forward and the backward pass of one iteration (checkpoint / logging callback inside the iteration).  A history
   that ends inside an open step is completed (step_close) before it is probed, on model and twin alike, so the state "forward done,
   backward pending" - whose only carrier is the autograd graph of the kept output and of the sampled coefficients - is observed.
 * NO-BIAS SPECIFICATIONS: shards whose dictionary specification has `params_no_bias` / `ops_no_bias` as ONE of its two entries and
   whose "other" specification (assigned through the `cost_specification` setter and switched back) is the other no-bias metric
   (case key `specs` = nb1 | nb2), on the same fixtures (every Conv / Linear of which has a bias).
"""
import torch

from .. import fixtures as F
from .. import history as H

PID = 'C18'
RULE = ('BFS over all operation sequences up to the depth bound over {export, export(add_bn=False) [PIT], summary, cost | get_cost(a) | get_cost(b), '
        'cost_specification := other, := original, forward, training step, split training step (step_open = forward, step_close = loss + cost, backward, '
        'SGD: the observers in between run BETWEEN forward and backward; a history ending inside an open step is closed before probing), train()/eval()}; '
        'specifications: {a: params, b: ops} / ops [PIT, SuperNet], {a: params_bit, b: ops_bit} / ops_bit [MPS], and the no-bias variants '
        'nb1 = {a: params_no_bias, b: ops|ops_bit} / other = ops_no_bias, nb2 = {a: params|params_bit, b: ops_no_bias} / other = params_no_bias '
        '(quick: one nb shard and one step_open shard per (model, mode, full_cost), rotated with the seed; thorough: the get_cost_a / get_cost_b / spec_other / step_open shards of every (model, mode, full_cost) in both '
        'no-bias variants, and step_open as a letter of the general alphabet) on PIT / MPS (per-layer, per-channel) / SuperNet (soft, Gumbel) models with a layer '
        'used twice, a fixed layer and BatchNorm, in train and eval mode, full_cost off/on; every explored history is executed on a fresh real '
        'model together with its observer-free twin and the two probes are compared; non-trivial = a history containing at least one observer')
ASSUMPTIONS = ['the harness owns the RNG: it re-seeds before every forward / training step of model and twin, so an observer that merely consumes '
               'random numbers is not reported, only differences in the model\'s own state are',
               'states with identical probes are merged (the probe contains every observation the property names, incl. a later export and a training step); '
               'a state inside an open training step is never merged with a state outside one',
               'inside an open training step (between step_open and step_close) the enabled letters are the observers, the specification switches and '
               'step_close; quick tier: histories are not continued after a step_close (the states after a whole step are explored by the `step` shards)',
               'MPS: export() inside an open training step is explored too (the first version of this probe found that MPS.export() restored the '
               'searched model with load_state_dict - an in-place copy into tensors saved for backward - so that the backward of the pending forward '
               'raised; repaired in /repo as D50)']


def bounds(tier):
    return {'quick': {'depth': 3}, 'thorough': {'depth': 5}}[tier]


def _specs(method, variant='std'):
    from plinio.cost import params, ops, params_bit, ops_bit, params_no_bias, ops_no_bias
    a, b = (params_bit, ops_bit) if method == 'mps' else (params, ops)
    if variant == 'nb1':      # a no-bias metric as ONE entry of the dictionary; the other no-bias metric assigned through the setter
        return {'a': params_no_bias, 'b': b}, ops_no_bias
    if variant == 'nb2':
        return {'a': a, 'b': ops_no_bias}, params_no_bias
    assert variant == 'std', variant
    return {'a': a, 'b': b}, b


# quick tier: ONE no-bias shard per (model, mode, full_cost), rotated over (variant, first letter) with the enumeration index and the seed
NB_ROTATION = [('nb1', 'get_cost_a'), ('nb2', 'spec_other'), ('nb2', 'get_cost_b'), ('nb1', 'spec_other')]
NON_OBSERVERS = ('forward', 'step', 'to_train', 'to_eval', 'step_open', 'step_close')


MODELS = [('pit', 'pit1d', {}), ('pit', 'pit2d', {}), ('pit', 'pit1d_frozen', {'discrete_cost': True}), ('pit', 'pit1d_catin', {}),
          ('mps', 'mps_a', {}), ('mps', 'mps_b', {'per_channel': True}),
          # non-default sampling options given at construction (sampling disabled = "use the saved coefficients"; Gumbel)
          ('mps', 'mps_a', {'disable_sampling': True}), ('mps', 'mps_b', {'gumbel_softmax': True}),
          ('sn', 'sn_a', {}), ('sn', 'sn_twice', {}), ('sn', 'sn_gumbel', {})]


def cases(tier, seed):
    out = []
    combo = 0
    for method, name, kw in MODELS:
        if tier == 'quick' and (name in ('pit1d_frozen', 'sn_twice') or kw.get('gumbel_softmax')):
            continue      # thorough only
        for train in (True, False):
            for full in (False, True):
                if tier == 'quick' and full and (name in ('pit2d', 'pit1d_frozen', 'pit1d_catin', 'mps_b', 'sn_twice') or kw.get('disable_sampling')):
                    continue
                # the BFS is sharded by its first letter (pool parallelism only; closure is then per shard, which is sound but redundant)
                base = {'method': method, 'model': name, 'kw': kw, 'train': train, 'full_cost': full, 'tier': tier}
                for first in _first_letters(method, kw) + [None]:
                    out.append(dict(base, first=first))
                # round 7: the split training step (observers between forward and backward) ...
                out.append(dict(base, first='step_open'))
                # ... and the no-bias specifications
                if tier == 'quick':
                    variant, first = NB_ROTATION[(combo + seed) % len(NB_ROTATION)]
                    out.append(dict(base, first=first, specs=variant))
                else:
                    for variant in ('nb1', 'nb2'):
                        # the shards whose first letter reads a cost / switches the specification / opens a step (the other
                        # letters follow at depth >= 2 inside these shards)
                        for first in ('get_cost_a', 'get_cost_b', 'spec_other', 'step_open'):
                            out.append(dict(base, first=first, specs=variant))
                combo += 1
    return out


def _first_letters(method, kw):
    ops = ['export', 'summary', 'forward', 'step', 'mode', 'get_cost_a', 'get_cost_b', 'spec_other']
    if method == 'pit':
        ops.append('export_nobn')
    if kw.get('per_channel'):
        ops.remove('export')
    return ops


def _make(case, seed):
    method = case['method']
    dspec, other = _specs(method, case.get('specs', 'std'))
    kw = dict(case['kw'])
    if kw.pop('per_channel', False):
        from plinio.methods.mps import MPSType
        kw['w_search_type'] = MPSType.PER_CHANNEL
    nas, x, _ = F.make(method, case['model'], seed, train=case['train'], cost=dict(dspec), full_cost=case['full_cost'], **kw)
    return nas, x, dspec, other


def _apply(nas, x, op, st, dspec, other):
    if op == 'forward':
        st['nfwd'] += 1
        torch.manual_seed(991 + st['nfwd'])
        nas(x)
    elif op == 'export':
        nas.export()
    elif op == 'export_nobn':
        nas.export(add_bn=False)
    elif op == 'summary':
        nas.summary()
    elif op == 'cost':
        nas.cost
    elif op == 'get_cost_a':
        nas.get_cost('a')
    elif op == 'get_cost_b':
        nas.get_cost('b')
    elif op == 'to_train':
        nas.train()
    elif op == 'to_eval':
        nas.eval()
    elif op == 'step':
        st['nfwd'] += 1
        torch.manual_seed(1991 + st['nfwd'])
        params = st['params']
        for p in params:
            p.grad = None
        y = nas(x)
        if st['spec'] == 'orig':
            loss = torch.tanh(y).sum() + 1e-3 * (nas.get_cost('a') + nas.get_cost('b'))
        else:
            loss = torch.tanh(y).sum() + 1e-3 * nas.cost
        loss.backward()
        with torch.no_grad():
            for p in params:
                if p.grad is not None:
                    p -= 0.01 * p.grad
    elif op == 'step_open':
        # first half of a training step: seeded forward, the output (and its autograd graph) is kept
        st['nfwd'] += 1
        torch.manual_seed(1991 + st['nfwd'])
        for p in st['params']:
            p.grad = None
        st['pending'] = nas(x)
    elif op == 'step_close':
        # second half: the loss is built from the KEPT output and a cost read now (no forward in between), backward, SGD step
        y = st.pop('pending')
        if st['spec'] == 'orig':
            loss = torch.tanh(y).sum() + 1e-3 * (nas.get_cost('a') + nas.get_cost('b'))
        else:
            loss = torch.tanh(y).sum() + 1e-3 * nas.cost
        loss.backward()
        with torch.no_grad():
            for p in st['params']:
                if p.grad is not None:
                    p -= 0.01 * p.grad
    elif op == 'spec_other':
        nas.cost_specification = other
        st['spec'] = 'other'
    elif op == 'spec_orig':
        nas.cost_specification = dict(dspec)
        st['spec'] = 'orig'
    else:
        raise ValueError(op)


def _probe(nas, x, st, dspec, other, with_export=True):
    """everything the property names, read in a fixed order on a throw-away object"""
    obs = {}
    obs['flags'] = F.flags(nas)
    obs['sd'] = F.sd_hash(nas)
    with torch.no_grad():
        if st['spec'] == 'orig':
            obs['cost_now'] = [F.canon(float(nas.get_cost('a'))), F.canon(float(nas.get_cost('b')))]
        else:
            obs['cost_now'] = [F.canon(float(nas.cost))]
            nas.cost_specification = dict(dspec)
        obs['cost_orig'] = [F.canon(float(nas.get_cost('a'))), F.canon(float(nas.get_cost('b')))]
    torch.manual_seed(31337)      # summary() may draw a (Gumbel) sample for reporting: the harness owns the RNG
    obs['summary'] = F.canon(nas.summary())
    if not with_export:
        obs['flags_after_observers'] = F.flags(nas) == obs['flags']
        obs['export'] = obs['export_repeat_equal'] = None
    else:
        e1 = nas.export()
        e2 = nas.export()
        obs['flags_after_observers'] = F.flags(nas) == obs['flags']
    # the exported network shares its unchanged sub-modules with the searched model: evaluate it in eval mode without
    # disturbing the training flags of the live model (using the exported network is not part of the property)
        saved = [(m, m.training) for m in nas.modules()]
        with torch.no_grad():
            e1.eval()
            e2.eval()
            obs['export'] = (F.structure(e1), F.sd_hash(e1), F.tensor_hash(e1(x)))
            obs['export_repeat_equal'] = (F.structure(e2), F.sd_hash(e2), F.tensor_hash(e2(x))) == obs['export']
        for m, t in saved:
            m.training = t
    # restore the recorded mode (export is known to touch it) so that the forward below runs in the mode the wrapper reports
    torch.manual_seed(424242)
    y = nas(x)
    obs['out'] = F.tensor_hash(y)
    # the search continues: one SGD step on loss + cost
    params = st['params']
    for p in params:
        p.grad = None
    loss = torch.tanh(y).sum() + 1e-3 * (nas.get_cost('a') + nas.get_cost('b'))
    loss.backward()
    with torch.no_grad():
        for p in params:
            if p.grad is not None:
                p -= 0.01 * p.grad
    obs['sd_after_step'] = F.sd_hash(nas)
    return obs


def _run_history(case, seed, hist):
    """Two independent replays of the history, each on a fresh model:
    probe A makes NO observer call of its own before the seeded forward and the training step (so a latent side effect of an observer
    in the history - one that only shows at the next forward - is not masked by the probe's own export / summary / cost reads);
    probe B reads every observer (costs, summary, two exports) and then continues as well."""
    obs = {}
    st = None
    for which in ('A', 'B'):
        nas, x, dspec, other = _make(case, seed)
        # the optimizer of a search is built ONCE, before any observer is called: every training step of the history and of the probes
        # updates these parameter OBJECTS (an observer that replaces the model's parameters orphans them and the search stops learning)
        st = {'nfwd': 0, 'spec': 'orig', 'params': [p for p in nas.parameters() if p.requires_grad]}
        for op in hist:
            _apply(nas, x, op, st, dspec, other)
        if 'pending' in st:
            # the history ends inside an open training step: complete it (the observers of the history then sat between its forward and
            # its backward pass); the probes below see the parameters after that step
            _apply(nas, x, 'step_close', st, dspec, other)
        if which == 'A':
            o = _probe_continue(nas, x, st)
        else:
            o = _probe(nas, x, st, dspec, other, not case['kw'].get('per_channel'))
        obs.update({f'{which}.{k}': v for k, v in o.items()})
    obs['export_repeat_equal'] = obs.pop('B.export_repeat_equal')
    obs['flags_after_observers'] = obs.pop('B.flags_after_observers')
    return obs, st


def _probe_continue(nas, x, st):
    obs = {'flags': F.flags(nas), 'sd': F.sd_hash(nas)}
    torch.manual_seed(424242)
    y = nas(x)
    obs['out'] = F.tensor_hash(y)
    params = st['params']
    for p in params:
        p.grad = None
    if st['spec'] == 'orig':
        loss = torch.tanh(y).sum() + 1e-3 * (nas.get_cost('a') + nas.get_cost('b'))
    else:
        loss = torch.tanh(y).sum() + 1e-3 * nas.cost
    loss.backward()
    with torch.no_grad():
        for p in params:
            if p.grad is not None:
                p -= 0.01 * p.grad
    obs['sd_after_step'] = F.sd_hash(nas)
    torch.manual_seed(424243)
    with torch.no_grad():
        obs['out_after_step'] = F.tensor_hash(nas(x))
    return obs


def _mode(hist, train):
    for op in hist:
        if op == 'to_train':
            train = True
        elif op == 'to_eval':
            train = False
    return train


def _pending(hist):
    p = False
    for op in hist:
        if op == 'step_open':
            p = True
        elif op == 'step_close':
            p = False
    return p


def _proto(variant, hist):
    """signature suffix naming the round-7 protocol that a history used: a no-bias specification variant; the last letter ran inside an open
    training step (between the forward and the backward pass); the history contains a split step.  Empty for the original alphabet."""
    in_step = bool(hist) and _pending(hist[:-1]) and hist[-1] != 'step_close'
    return ('' if variant == 'std' else f'/spec={variant}') + \
        ('/between-forward-and-backward' if in_step else '/history-with-split-step' if 'step_open' in hist else '')


def _twin(hist):
    # non-observers are kept, in order; the specification in force matters for 'step', so its switches are kept as well
    # but collapsed (a switch to the specification already in force in the twin is dropped)
    t = []
    spec = 'orig'
    for op in hist:
        if op in ('forward', 'to_train', 'to_eval', 'step', 'step_open', 'step_close'):
            t.append(op)
        elif op == 'spec_other' and spec != 'other':
            spec = 'other'
            t.append(op)
        elif op == 'spec_orig' and spec != 'orig':
            spec = 'orig'
            t.append(op)
    # drop switch pairs that enclose no step (spec_other ... spec_orig with only mode changes / forwards in between)
    changed = True
    while changed:
        changed = False
        for i, op in enumerate(t):
            if op in ('spec_other', 'spec_orig'):
                j = i + 1
                while j < len(t) and t[j] in ('forward', 'to_train', 'to_eval', 'step_open'):
                    j += 1
                if j < len(t) and t[j] in ('spec_other', 'spec_orig'):
                    del t[j]
                    del t[i]
                    changed = True
                    break
    return tuple(t)


def run_case(case, seed):
    tier = case.get('tier', 'quick')
    depth = bounds(tier)['depth']
    method = case['method']
    twin_cache = {}
    base_case = {k: v for k, v in case.items() if k != 'history'}
    nontrivial = set()
    evals = [0]

    first = case.get('first', 'ALL')
    variant = case.get('specs', 'std')
    vtag = '' if variant == 'std' else f'spec={variant}/'

    def alphabet(hist):
        if not hist and first != 'ALL':
            if first is None:
                return []
            return ['to_eval' if case['train'] else 'to_train'] if first == 'mode' else [first]
        spec = 'orig'
        for op in hist:
            if op == 'spec_other':
                spec = 'other'
            elif op == 'spec_orig':
                spec = 'orig'
        cost_letters = ['get_cost_a', 'get_cost_b', 'spec_other'] if spec == 'orig' else ['cost', 'spec_orig']
        if _pending(hist):
            # inside an open training step: observers, specification switches, and the second half of the step
            ops = ['summary', 'step_close']
            if not case['kw'].get('per_channel'):
                ops.insert(0, 'export')      # (MPS included since the repair of D50: export() no longer writes in place into tensors saved for backward)
            if method == 'pit':
                ops.append('export_nobn')
            return ops + cost_letters
        if tier == 'quick' and 'step_close' in hist:
            return []                        # quick: the states after a whole step are explored by the `step` shards
        ops = ['export', 'summary', 'forward', 'step', 'to_eval' if _mode(hist, case['train']) else 'to_train']
        if case['kw'].get('per_channel'):
            ops.remove('export')     # per-channel MPS export is documented as unsupported (README; C02 is per-layer only)
        if method == 'pit':
            ops.append('export_nobn')
        if tier == 'thorough':
            ops.append('step_open')
        # the two metrics are separate letters: "in any order" includes which metric is queried first
        ops += cost_letters
        return ops

    def run(hist):
        viol = []
        try:
            obs, st = _run_history(case, seed, hist)
        except Exception as e:
            import traceback
            tb = traceback.format_exc()[-500:]
            return {'key': ('raise', type(e).__name__, hist[-1] if hist else ''), 'outcome': 'raises',
                    'violations': [{'kind': 'operation-raises', 'sig': f'operation-raises/{method}/{hist[-1] if hist else "init"}' + _proto(variant, hist),
                                    'msg': f'history {list(hist)}: {type(e).__name__}: {str(e)[:200]} {tb}',
                                    'case': dict(base_case, history=list(hist))}]}
        tw = _twin(hist)
        if tw not in twin_cache:
            twin_cache[tw] = _run_history(case, seed, tw)[0]
        ref = twin_cache[tw]
        evals[0] += 1
        if any(op not in NON_OBSERVERS for op in hist):
            nontrivial.add(f"{case['method']}/{case['model']}/{case['train']}/{case['full_cost']}/{vtag}{'.'.join(hist)}")
        diffs = [k for k in obs if obs[k] != ref[k]]
        # which observer is to blame: the last op of the history (shorter histories were checked before)
        if diffs:
            last = hist[-1]
            mode = 'train' if _mode(hist, case['train']) else 'eval'
            # the protocol that exposed it is part of the signature: a no-bias specification variant, an observer that ran inside an
            # open training step (between the forward and the backward pass)
            viol.append({'kind': 'observer-changed-model', 'sig': f'observer-changed-model/{method}/{last}/{mode}/' + '+'.join(sorted(diffs)) + _proto(variant, hist),
                         'msg': f'{case["model"]} ({mode}, full_cost={case["full_cost"]}): after history {list(hist)} the probe differs from the '
                                f'observer-free twin {list(tw)} in {diffs}: ' +
                                '; '.join(f'{k}: {str(obs[k])[:80]} vs {str(ref[k])[:80]}' for k in diffs[:3]),
                         'case': dict(base_case, history=list(hist))})
        if obs['export_repeat_equal'] is False:
            viol.append({'kind': 'repeated-exports-differ', 'sig': f'repeated-exports-differ/{method}',
                         'msg': f'history {list(hist)}: two consecutive export() calls returned different networks',
                         'case': dict(base_case, history=list(hist))})
        if not obs['flags_after_observers']:
            mode = 'train' if case['train'] else 'eval'
            viol.append({'kind': 'observers-change-training-mode', 'sig': f'observers-change-training-mode/{method}/{mode}',
                         'msg': f'{case["model"]} ({mode}): after history {list(hist)}, reading cost/summary/export() changed the training flags of the model',
                         'case': dict(base_case, history=list(hist))})
        key = (tuple(sorted((k, str(v)) for k, v in obs.items())), st['spec'], _pending(hist))
        return {'key': key, 'violations': viol, 'outcome': 'differs' if viol else 'same-as-twin'}

    only = tuple(case['history']) if case.get('history') is not None else None
    r = H.bfs(run, alphabet, depth, only=only)
    return {'states': r['states'], 'transitions': r['transitions'], 'evals': evals[0], 'nontrivial': sorted(nontrivial),
            'outcomes': [f'{k}' for k in r['outcomes']], 'violations': r['violations'],
            'cap': None,
            'sample': {'model': case['model'], 'train': case['train'], 'full_cost': case['full_cost'], 'closed': r['closed'],
                       'depth_reached': r['depth_reached'], 'executions': r['executions'],
                       'histories_reaching_new_states': r.get('sample_histories')}}
