"""C06 - SuperNet cost is the coefficient-weighted mix of branch costs.

Configuration-lattice explorer over G_sn x a coefficient grid: soft mode with coefficient vectors from {-1, 0, 0.5, 2}^n
(complete for n <= 4 per block, one-element deviations from uniform beyond), temperatures {0.05, 1, 20}, hard and Gumbel
selection (RNG owned by the harness).  Oracle: after a forward,
   cost == sum_blocks sum_i theta_i * refcost(branch_i) (+ refcost(fixed layers) with full_cost)
with theta read after the forward and the branch / fixed-layer costs recomputed independently on the ORIGINAL modules
(own fx walk + ShapeProp); min_i <= block cost <= max_i; under hard selection cost(full_cost=True) == refcost(export());
per-invocation metrics count a block used twice twice, shared ones once.
"""
import itertools

import torch
import torch.nn as nn

from .. import pitdrv as D
from .. import tol
from ..grammar import net2d as G2
from ..grammar import sn as GS
from .c03 import make, _shape_sig

PID = 'C06'
GRID = [-1.0, 0.0, 0.5, 2.0]
RULE = ('programs: G_sn (as C03); configurations: coefficient vectors from ' + str(GRID) + '^n per block (complete product for n <= 4, all one-element '
        'deviations from each uniform vector beyond; blocks combined by rotating the vectors) x T in {0.05,1,20} x {soft, hard, gumbel, gumbel+hard} x '
        'train/eval x full_cost off/on; metrics params (shared) and ops (per-invocation), as dictionary; non-trivial = a configuration with non-uniform '
        'coefficients')
ASSUMPTIONS = ['branch / fixed-layer reference costs come from an independent fx walk with shape propagation over the original user modules',
               'Gumbel noise owned by seeding; theta is read from the combiner after the forward']


def bounds(tier):
    return {'quick': {'grid': GRID, 'complete_upto_branches': 3, 'temperatures': [0.05, 1.0, 20.0]},
            'thorough': {'grid': GRID, 'complete_upto_branches': 4, 'temperatures': [0.05, 1.0, 20.0]}}[tier]


def cases(tier, seed):
    progs = GS.gen('quick')
    if tier == 'quick':
        # every kind of structure, but only a third of the pair/triple blocks
        progs = [p for i, p in enumerate(progs) if i % 3 == 0 or i >= 165]
    return [{'prog': p, 'tier': tier} for p in progs]


def _vectors(n, complete_upto):
    if n <= complete_upto:
        return [list(v) for v in itertools.product(GRID, repeat=n)]
    out = []
    for u in GRID:
        out.append([u] * n)
        for i in range(n):
            for v in GRID:
                if v != u:
                    t = [u] * n
                    t[i] = v
                    out.append(t)
    return out


def _block_refcosts(prog, model, x):
    """reference cost of every branch of every block and of the fixed layers, on the ORIGINAL model"""
    from plinio.methods.supernet import SuperNetModule
    inputs = {}
    hooks = []
    for n, m in model.named_modules():
        if isinstance(m, SuperNetModule):
            hooks.append(m.register_forward_pre_hook(lambda mod, inp, n=n: inputs.setdefault(n, []).append(inp[0].detach().clone())))
    with torch.no_grad():
        model(x)
    for h in hooks:
        h.remove()
    blocks = {}
    for n, m in model.named_modules():
        if isinstance(m, SuperNetModule):
            calls = inputs[n]
            per_branch = []
            for br in m.sn_branches:
                if isinstance(br, nn.Identity) or len(list(br.parameters())) == 0:
                    per_branch.append({'params': 0.0, 'ops': 0.0, 'ops_per_call': [0.0] * len(calls)})
                    continue
                wrapper = nn.Sequential()
                wrapper.add_module('b', br)
                opc = []
                pr = None
                for xin in calls:
                    r = D.ref_costs(wrapper, xin, None)
                    opc.append(r['ops'])
                    pr = r['params']
                per_branch.append({'params': pr, 'ops': sum(opc), 'ops_per_call': opc})
            blocks[n] = {'branches': per_branch, 'calls': len(calls)}
    # fixed layers: everything that is not inside a choice block
    fixed_names = [n for n, m in model.named_modules() if isinstance(m, (nn.Conv2d, nn.Linear)) and 'sn_branches' not in n]
    # an export-independent way to cost them: trace the model with SuperNetModules as leaves
    import torch.fx as fx
    from torch.fx.passes.shape_prop import ShapeProp

    class _T(fx.Tracer):
        def is_leaf_module(self, m, qn):
            return isinstance(m, SuperNetModule) or (m.__module__.startswith('torch.nn') and not isinstance(m, nn.Sequential))
    tr = _T()
    graph = tr.trace(model)
    gm = fx.GraphModule(tr.root, graph)
    fixed = D.ref_costs(gm, x, set(fixed_names))
    return blocks, {'params': fixed['params'], 'ops': fixed['ops']}


def run_case(case, seed):
    prog = case['prog']
    tier = case.get('tier', 'quick')
    b = bounds(tier)
    res = {'states': 0, 'transitions': 0, 'evals': 0, 'nontrivial': [], 'outcomes': set(), 'violations': []}
    base_case = {k: v for k, v in case.items() if k != 'only'}
    ssig = _shape_sig(prog)

    def add(kind, sig, msg, label):
        res['outcomes'].add(kind)
        res['violations'].append({'kind': kind, 'sig': sig, 'msg': f'{ssig}: {label}: {msg}', 'case': dict(base_case, only=label)})

    from plinio.cost import params, ops
    try:
        nas, x, model = make(prog, seed, cost={'params': params, 'ops': ops})
        ref_model, _ = G2.build(prog, seed, positive_input=False)
        blocks, fixed = _block_refcosts(prog, ref_model, x)
    except Exception as e:
        import traceback
        res.update(states=1, evals=1)
        add('conversion-raises', 'conversion-raises', f'{type(e).__name__}: {str(e)[:200]} {traceback.format_exc()[-400:]}', None)
        res['outcomes'] = sorted(res['outcomes'])
        return res
    combs = GS.combiners(nas)
    sblocks = [s for s in prog['stages'] if s['op'] == 'sn']
    bnames = [cn[len('seed.'):].rsplit('.', 1)[0] for cn, _ in combs]
    vecs = [_vectors(m.n_branches, b['complete_upto_branches']) for _, m in combs]
    nmax = max(len(v) for v in vecs)
    only = case.get('only')
    modes = [('soft', False), ('soft', True), ('hard', True), ('hard', False), ('gumbel', True), ('gumbel-hard', True)]
    for vi in range(nmax):
        for T in b['temperatures']:
            for mode, training in modes:
                if tier == 'quick' and (vi + int(T * 10) + len(mode)) % 3 != 0 and nmax > 40:
                    continue
                for full in (False, True):
                    label = {'vec': vi, 'T': T, 'mode': mode, 'training': training, 'full_cost': full}
                    if only is not None and only != label:
                        continue
                    with torch.no_grad():
                        for bi, (_, m) in enumerate(combs):
                            v = vecs[bi][(vi * (bi + 1) + bi) % len(vecs[bi])]
                            m.alpha.copy_(torch.tensor(v))
                            m.sample_alpha = m.sample_alpha_gs if mode.startswith('gumbel') else m.sample_alpha_sm
                    nas.update_softmax_options(temperature=T, hard=mode in ('hard', 'gumbel-hard'))
                    nas.train(training)
                    nas.full_cost = full
                    res['states'] += 1
                    res['transitions'] += 1
                    try:
                        torch.manual_seed(4242 + vi)
                        with torch.no_grad():
                            nas(x)
                            got = {k: float(nas.get_cost(k)) for k in ('params', 'ops')}
                    except Exception as e:
                        add('cost-raises', 'cost-raises', f'{type(e).__name__}: {str(e)[:200]}', label)
                        continue
                    thetas = [m.theta_alpha.detach().clone() for _, m in combs]
                    for metric in ('params', 'ops'):
                        res['evals'] += 1
                        want = fixed[metric] if full else 0.0
                        lo = hi = want
                        for bn, th in zip(bnames, thetas):
                            bc = [br[metric] for br in blocks[bn]['branches']]
                            want += sum(float(t) * c for t, c in zip(th, bc))
                            lo += min(bc)
                            hi += max(bc)
                        ok, why = tol.cost_close(got[metric], want)
                        if not (abs(got[metric] - want) <= 1e-3 + 2e-5 * max(abs(want), 1)):
                            add('cost-not-weighted-mix', f'cost-not-weighted-mix/{metric}/full={int(full)}',
                                f'get_cost({metric})={got[metric]} but sum_i theta_i*cost_i (+fixed) = {want} '
                                f'(theta={[[round(float(t), 4) for t in th] for th in thetas]})', label)
                        if got[metric] < lo - 1e-3 - 2e-5 * abs(lo) or got[metric] > hi + 1e-3 + 2e-5 * abs(hi):
                            add('cost-outside-branch-range', f'cost-outside-branch-range/{metric}', f'get_cost({metric})={got[metric]} outside [{lo}, {hi}]', label)
                    # hard selection: full cost == cost of the exported network
                    if mode == 'hard' and full and not any(sb['branches'][int(torch.argmax(th))] == 'fblk' for sb, th in zip(sblocks, thetas)):
                        try:
                            with torch.no_grad():
                                exp = nas.export()
                                r = D.ref_costs(exp, x, None)
                            for metric in ('params', 'ops'):
                                res['evals'] += 1
                                if abs(got[metric] - r[metric]) > 1e-3 + 2e-5 * abs(r[metric]):
                                    add('hard-cost-differs-from-export', f'hard-cost-differs-from-export/{metric}',
                                        f'hard selection, full_cost: get_cost({metric})={got[metric]} but the exported network costs {r[metric]}', label)
                        except Exception as e:
                            add('export-raises', 'export-raises', f'{type(e).__name__}: {str(e)[:200]}', label)
                    res['outcomes'].add('checked')
                    res['nontrivial'].append(f'{ssig}/{vi}/{T}/{mode}/{training}/{full}')
    res['outcomes'] = sorted(res['outcomes'])
    res['sample'] = {'prog': prog, 'branch_costs': {bn: [(br['params'], br['ops']) for br in blocks[bn]['branches']] for bn in bnames},
                     'fixed': fixed, 'vectors_per_block': [len(v) for v in vecs]}
    return res
