"""C06 - SuperNet cost is the coefficient-weighted mix of branch costs.

Configuration-lattice explorer over G_sn x a coefficient grid: soft mode with coefficient vectors from {-1, 0, 0.5, 2}^n
(complete for n <= 4 per block, one-element deviations from uniform beyond), temperatures {0.05, 1, 20}, hard and Gumbel
selection (RNG owned by the harness).  Oracle: after a forward,
   cost == sum_blocks sum_i theta_i * refcost(branch_i) (+ refcost(fixed layers) with full_cost)
with theta read after the forward and the branch / fixed-layer costs recomputed independently on the ORIGINAL modules
(own fx walk + ShapeProp); min_i <= block cost <= max_i; under hard selection cost(full_cost=True) == refcost(export());
per-invocation metrics count a block used twice twice, shared ones once.

All configurations of one program are visited on ONE live SuperNet.  On top of the configuration, a *protocol* (a short sequence
of public-API operations on that live object) is attached to every visited configuration:
   plain        set the configuration, forward, read the costs (dictionary specification given at construction)
   spec-single  the metric is re-assigned through the `cost_specification` setter: dictionary -> single spec A -> single spec B ->
                the original dictionary; `cost` is compared with the reference of the metric in force after EVERY assignment
   spec-dict    dictionary -> another dictionary (entries reordered / renamed / names swapped between the two metrics / one entry
                only) -> the original dictionary; every name is compared with the reference of the metric it is bound to
   ts-off       `train_selection = False`, then a neighbouring configuration (differing in the coefficient vector / temperature /
                hard switch / full_cost / all of them, and always in the Gumbel seed) is visited and compared, then the
                configuration itself (train_selection put back to True at the end)
   ts-on        as ts-off, but `train_selection = True` again between the neighbouring configuration and the configuration itself
The oracle is the same for every step of every protocol (the cost is a function of the metric in force, the sampled coefficients
and full_cost only); every state ends with the original dictionary specification and train_selection True, and the replay case of a
violation is the state alone if that reproduces it on a fresh SuperNet, else the state preceded by the states executed since the last
re-assignment of the specification (`after`).
"""
import itertools

import torch
import torch.nn as nn

from .. import pitdrv as D
from .. import tol
from ..grammar import net2d as G2
from ..grammar import sn as GS
from .c03 import make, _shape_sig

PID = 'C06'
GRID = [-1.0, 0.0, 0.5, 2.0]
PROTOS = ['plain', 'spec-single', 'ts-off', 'spec-dict', 'ts-on']
# quick tier: one protocol per configuration, rotating with a period (7) coprime to the sizes of the enumeration loops (2, 6, 3)
QUICK_ROT = ['plain', 'spec-single', 'plain', 'ts-off', 'spec-dict', 'plain', 'ts-on']
ASPECTS = ['vec', 'T', 'mode', 'full_cost', 'all']
DICT_KINDS = {'reordered': [('ops', 'ops'), ('params', 'params')], 'renamed': [('m0', 'ops'), ('m1', 'params')],
              'swapped': [('params', 'ops'), ('ops', 'params')], 'only-ops': [('ops', 'ops')], 'only-params': [('params', 'params')]}
DICT_ROT = ['swapped', 'reordered', 'only-ops', 'renamed', 'only-params']
MODES = [('soft', False), ('soft', True), ('hard', True), ('hard', False), ('gumbel', True), ('gumbel-hard', True)]
TRAIL = 12
MODE_SWAP = {'soft': 'hard', 'hard': 'soft', 'gumbel': 'gumbel-hard', 'gumbel-hard': 'gumbel'}
RULE = ('programs: G_sn (as C03); configurations: coefficient vectors from ' + str(GRID) + '^n per block (complete product for n <= 4, all one-element '
        'deviations from each uniform vector beyond; blocks combined by rotating the vectors) x T in {0.05,1,20} x {soft, hard, gumbel, gumbel+hard} x '
        'train/eval x full_cost off/on; metrics params (shared) and ops (per-invocation), as dictionary; all configurations of a program on one live '
        'SuperNet; protocols on that live object: plain / spec-single (cost_specification setter: dict -> single A -> single B -> original dict, cost '
        'compared after every assignment) / spec-dict (dict -> reordered, renamed, name-swapped or one-entry dict -> original dict) / ts-off '
        '(train_selection=False, a neighbouring configuration differing in vector, T, hard, full_cost or all is visited and compared, then the '
        'configuration itself) / ts-on (the same with train_selection=True again in between); quick: one protocol per configuration rotating with '
        'period 7 (3 plain : 4 others), thorough: every protocol on every configuration; non-trivial = a (configuration, protocol, variant) triple, '
        'key suffix /<protocol>.<variant> for the non-plain ones')
ASSUMPTIONS = ['branch / fixed-layer reference costs come from an independent fx walk with shape propagation over the original user modules',
               'Gumbel noise owned by seeding; theta is read from the combiner after the forward',
               'the reference for a metric (re-)assigned through the cost_specification setter is the one used for the same metric given at construction: '
               'the cost is taken to depend on the specification in force, the sampled coefficients and full_cost only, not on how / when they were set',
               'train_selection only decides whether the coefficients are trainable (requires_grad); it is not allowed to change or freeze the cost value']


def bounds(tier):
    return {'quick': {'grid': GRID, 'complete_upto_branches': 3, 'temperatures': [0.05, 1.0, 20.0],
                      'protocols': 'one per configuration, rotation ' + '/'.join(QUICK_ROT)},
            'thorough': {'grid': GRID, 'complete_upto_branches': 4, 'temperatures': [0.05, 1.0, 20.0],
                         'protocols': 'all of ' + '/'.join(PROTOS) + ' on every configuration'}}[tier]


def cases(tier, seed):
    progs = GS.gen('quick')
    if tier == 'quick':
        # every kind of structure, but only a third of the pair/triple blocks
        progs = [p for i, p in enumerate(progs) if i % 3 == 0 or i >= 165]
    # a choice block invoked at two call sites working at DIFFERENT resolutions (second invocation behind a 2x2 pooling)
    pre = {'op': 'conv', 'cout': 4}
    progs = progs + [{'cin': 3, 'size': 6, 'stages': [pre, GS.block(['c3', 'id'], twice='pool')], 'head': 'flatlin'},
                     {'cin': 3, 'size': 6, 'stages': [pre, GS.block(['c3', 'c1', 'seq'], twice='pool')], 'head': 'gaplin'},
                     {'cin': 3, 'size': 6, 'stages': [pre, GS.block(['blk', 'dw'], twice='pool'), GS.block(['c1', 'c3'])], 'head': 'flatlin'}]
    return [{'prog': p, 'tier': tier} for p in progs]


def _vectors(n, complete_upto):
    if n <= complete_upto:
        return [list(v) for v in itertools.product(GRID, repeat=n)]
    out = []
    for u in GRID:
        out.append([u] * n)
        for i in range(n):
            for v in GRID:
                if v != u:
                    t = [u] * n
                    t[i] = v
                    out.append(t)
    return out


def _block_refcosts(prog, model, x):
    """reference cost of every branch of every block and of the fixed layers, on the ORIGINAL model"""
    from plinio.methods.supernet import SuperNetModule
    inputs = {}
    hooks = []
    for n, m in model.named_modules():
        if isinstance(m, SuperNetModule):
            hooks.append(m.register_forward_pre_hook(lambda mod, inp, n=n: inputs.setdefault(n, []).append(inp[0].detach().clone())))
    with torch.no_grad():
        model(x)
    for h in hooks:
        h.remove()
    blocks = {}
    for n, m in model.named_modules():
        if isinstance(m, SuperNetModule):
            calls = inputs[n]
            per_branch = []
            for br in m.sn_branches:
                if isinstance(br, nn.Identity) or len(list(br.parameters())) == 0:
                    per_branch.append({'params': 0.0, 'ops': 0.0, 'ops_per_call': [0.0] * len(calls)})
                    continue
                wrapper = nn.Sequential()
                wrapper.add_module('b', br)
                opc = []
                pr = None
                for xin in calls:
                    r = D.ref_costs(wrapper, xin, None)
                    opc.append(r['ops'])
                    pr = r['params']
                per_branch.append({'params': pr, 'ops': sum(opc), 'ops_per_call': opc})
            blocks[n] = {'branches': per_branch, 'calls': len(calls)}
    # fixed layers: everything that is not inside a choice block
    fixed_names = [n for n, m in model.named_modules() if isinstance(m, (nn.Conv2d, nn.Linear)) and 'sn_branches' not in n]
    # an export-independent way to cost them: trace the model with SuperNetModules as leaves
    import torch.fx as fx
    from torch.fx.passes.shape_prop import ShapeProp

    class _T(fx.Tracer):
        def is_leaf_module(self, m, qn):
            return isinstance(m, SuperNetModule) or (m.__module__.startswith('torch.nn') and not isinstance(m, nn.Sequential))
    tr = _T()
    graph = tr.trace(model)
    gm = fx.GraphModule(tr.root, graph)
    fixed = D.ref_costs(gm, x, set(fixed_names))
    return blocks, {'params': fixed['params'], 'ops': fixed['ops']}


def _neighbour(cfg, aspect, nmax, temps):
    """the configuration visited before `cfg` in the ts-off / ts-on protocols: one aspect (or all of them) changed"""
    pre = dict(cfg)
    if aspect in ('vec', 'all'):
        pre['vec'] = (cfg['vec'] + 1) % nmax
    if aspect in ('T', 'all'):
        pre['T'] = temps[(temps.index(cfg['T']) + 1) % len(temps)]
    if aspect in ('mode', 'all'):
        pre['mode'] = MODE_SWAP[cfg['mode']]
    if aspect in ('full_cost', 'all'):
        pre['full_cost'] = not cfg['full_cost']
    return pre


def run_case(case, seed):
    prog = case['prog']
    tier = case.get('tier', 'quick')
    b = bounds(tier)
    res = {'states': 0, 'transitions': 0, 'evals': 0, 'nontrivial': [], 'outcomes': set(), 'violations': []}
    base_case = {k: v for k, v in case.items() if k not in ('only', 'after')}
    ssig = _shape_sig(prog)
    # labels of the states executed on the live object since (and including) the most recent state that went through the
    # cost_specification setter (at most TRAIL of them): the part of the history a replay on a fresh object may need
    trail = []

    def add(kind, sig, msg, label):
        res['outcomes'].add(kind)
        c = dict(base_case, only=label)
        if label is not None and trail:
            # provisional: dropped again at the end of the run if the state alone, on a fresh SuperNet, shows the same violation
            c['after'] = list(trail)
        res['violations'].append({'kind': kind, 'sig': sig, 'msg': f'{ssig}: {label}: {msg}', 'case': c})

    from plinio.cost import params, ops
    SPEC = {'params': params, 'ops': ops}
    try:
        nas, x, model = make(prog, seed, cost={'params': params, 'ops': ops})
        ref_model, _ = G2.build(prog, seed, positive_input=False)
        blocks, fixed = _block_refcosts(prog, ref_model, x)
    except Exception as e:
        import traceback
        res.update(states=1, evals=1)
        add('conversion-raises', 'conversion-raises', f'{type(e).__name__}: {str(e)[:200]} {traceback.format_exc()[-400:]}', None)
        res['outcomes'] = sorted(res['outcomes'])
        return res
    combs = GS.combiners(nas)
    sblocks = [s for s in prog['stages'] if s['op'] == 'sn']
    bnames = [cn[len('seed.'):].rsplit('.', 1)[0] for cn, _ in combs]
    vecs = [_vectors(m.n_branches, b['complete_upto_branches']) for _, m in combs]
    nmax = max(len(v) for v in vecs)
    temps = b['temperatures']
    after = case.get('after') or []
    wanted = [w for w in (list(after) if isinstance(after, list) else [after]) + [case.get('only')] if w is not None]

    def selected(label):
        if not wanted:
            return True
        # a label without 'proto' names the plain protocol; 'var' is a function of the configuration
        return any(all(label[k] == w.get(k) for k in ('vec', 'T', 'mode', 'training', 'full_cost'))
                   and label.get('proto', 'plain') == w.get('proto', 'plain') for w in wanted)

    def set_config(cfg):
        with torch.no_grad():
            for bi, (_, m) in enumerate(combs):
                v = vecs[bi][(cfg['vec'] * (bi + 1) + bi) % len(vecs[bi])]
                m.alpha.copy_(torch.tensor(v))
                m.sample_alpha = m.sample_alpha_gs if cfg['mode'].startswith('gumbel') else m.sample_alpha_sm
        nas.update_softmax_options(temperature=cfg['T'], hard=cfg['mode'] in ('hard', 'gumbel-hard'))
        nas.train(cfg['training'])
        nas.full_cost = cfg['full_cost']
        res['states'] += 1
        res['transitions'] += 1

    def forward(cfg, seed_off=0):
        # same CPU stream as torch.manual_seed(), without its per-call device bookkeeping (0.6 ms, half the price of a forward here)
        torch.default_generator.manual_seed(4242 + cfg['vec'] + seed_off)
        with torch.no_grad():
            nas(x)

    def read_thetas():
        return [m.theta_alpha.detach().clone() for _, m in combs]

    two_res = any(st.get('op') == 'sn' and st.get('twice') == 'pool' for st in prog['stages'])

    def d45_prediction(full, thetas):
        """ops value if every invocation of a block were charged the output shape of its FIRST invocation (D45)"""
        pred = fixed['ops'] if full else 0.0
        for bn, th in zip(bnames, thetas):
            pred += sum(float(t) * br['ops_per_call'][0] * blocks[bn]['calls'] for t, br in zip(th, blocks[bn]['branches']))
        return pred

    def compare(got, binding, full, thetas, label, tag):
        """got: {name: value}; binding: [(name, metric)]; the oracle of the property, the same for every step of every protocol"""
        sfx = '' if tag is None else '/proto=' + tag
        for name, metric in binding:
            res['evals'] += 1
            want = fixed[metric] if full else 0.0
            lo = hi = want
            for bn, th in zip(bnames, thetas):
                bc = [br[metric] for br in blocks[bn]['branches']]
                want += sum(float(t) * c for t, c in zip(th, bc))
                lo += min(bc)
                hi += max(bc)
            what = f'get_cost({name})' if name == metric else (f'cost [specification = {metric}]' if name is None else f'get_cost({name}) [bound to {metric}]')
            where = '' if tag is None else f' [protocol step {tag}]'
            ok, why = tol.cost_close(got[name], want)
            if not (abs(got[name] - want) <= 1e-3 + 2e-5 * max(abs(want), 1)):
                # D45 (listed): a choice block invoked at TWO RESOLUTIONS under a per-invocation metric: the combiner keeps the fx nodes of the
                # first call site only, so every call is charged the first call's output shape.  Structural predicate (such a block, metric ops)
                # AND causal one (the value equals what "every call costs what the first one costs" predicts)
                d45 = False
                if metric == 'ops' and two_res:
                    pred = d45_prediction(full, thetas)
                    d45 = abs(got[name] - pred) <= 1e-3 + 2e-5 * max(abs(pred), 1)
                if d45:
                    add('cost-not-weighted-mix', 'cost-not-weighted-mix/ops/block-invoked-at-two-resolutions-charged-first-resolution-twice',
                        f'{what}={got[name]} but sum_i theta_i*cost_i (+fixed) = {want}: every invocation of the block is charged the output shape of '
                        f'the FIRST one{where}', label)
                    continue
                add('cost-not-weighted-mix', f'cost-not-weighted-mix/{metric}/full={int(full)}' + sfx,
                    f'{what}={got[name]} but sum_i theta_i*cost_i (+fixed) = {want} '
                    f'(theta={[[round(float(t), 4) for t in th] for th in thetas]}){where}', label)
            if got[name] < lo - 1e-3 - 2e-5 * abs(lo) or got[name] > hi + 1e-3 + 2e-5 * abs(hi):
                add('cost-outside-branch-range', f'cost-outside-branch-range/{metric}' + sfx, f'{what}={got[name]} outside [{lo}, {hi}]{where}', label)

    def assign_and_compare(spec_binding, single, full, thetas, label, tag, do_forward=None):
        """re-assign the metric(s) through the public setter on the live object, then read and compare every metric in force"""
        res['transitions'] += 1
        try:
            if single:
                nas.cost_specification = SPEC[spec_binding[0][1]]
            else:
                nas.cost_specification = {name: SPEC[metric] for name, metric in spec_binding}
            if do_forward is not None:
                forward(do_forward)
                thetas = read_thetas()
            with torch.no_grad():
                if single:
                    got = {None: float(nas.cost)}
                    binding = [(None, spec_binding[0][1])]
                else:
                    got = {name: float(nas.get_cost(name)) for name, _ in spec_binding}
                    binding = spec_binding
        except Exception as e:
            add('cost-raises', 'cost-raises/proto=' + tag, f'{type(e).__name__}: {str(e)[:200]} [protocol step {tag}]', label)
            return thetas
        compare(got, binding, full, thetas, label, tag)
        return thetas

    D0 = [('params', 'params'), ('ops', 'ops')]
    for vi in range(nmax):
        for ti, T in enumerate(temps):
            for mi, (mode, training) in enumerate(MODES):
                if tier == 'quick' and (vi + int(T * 10) + len(mode)) % 3 != 0 and nmax > 40:
                    continue
                for fi, full in enumerate((False, True)):
                    # position in the full enumeration: a function of the configuration only (the same on replay of a single state)
                    pos = ((vi * len(temps) + ti) * len(MODES) + mi) * 2 + fi
                    var = (pos // 7) % 10
                    protos = PROTOS if tier == 'thorough' else [QUICK_ROT[pos % 7]]
                    for proto in protos:
                        cfg = {'vec': vi, 'T': T, 'mode': mode, 'training': training, 'full_cost': full}
                        label = dict(cfg)
                        if proto != 'plain':
                            label.update(proto=proto, var=var)
                        if not selected(label):
                            continue
                        tag = None if proto == 'plain' else proto + ':main'
                        aborted = False
                        # ---- train_selection protocols: freeze, visit a neighbouring configuration, (unfreeze,) go on
                        if proto in ('ts-off', 'ts-on'):
                            aspect = ASPECTS[var % len(ASPECTS)]
                            pre = _neighbour(cfg, aspect, nmax, temps)
                            try:
                                nas.train_selection = False
                                res['transitions'] += 1
                                set_config(pre)
                                forward(pre, seed_off=1000)
                                with torch.no_grad():
                                    got = {k: float(nas.get_cost(k)) for k in ('params', 'ops')}
                                compare(got, D0, pre['full_cost'], read_thetas(), label, f'{proto}:neighbour')
                                if proto == 'ts-on':
                                    nas.train_selection = True
                                    res['transitions'] += 1
                            except Exception as e:
                                add('cost-raises', f'cost-raises/proto={proto}:neighbour',
                                    f'{type(e).__name__}: {str(e)[:200]} [neighbouring configuration {pre}]', label)
                        set_config(cfg)
                        try:
                            if proto == 'spec-single':
                                # dictionary -> single A -> single B -> original dictionary; forward before or after the first assignment
                                first = ('ops', 'params')[var % 2]
                                second = 'params' if first == 'ops' else 'ops'
                                if (var // 2) % 2 == 0:
                                    forward(cfg)
                                    thetas = read_thetas()
                                    thetas = assign_and_compare([(None, first)], True, full, thetas, label, f'{proto}:first={first}')
                                else:
                                    thetas = assign_and_compare([(None, first)], True, full, None, label, f'{proto}:first={first}', do_forward=cfg)
                                    if thetas is None:      # the assignment itself raised before the forward
                                        forward(cfg)
                                        thetas = read_thetas()
                                assign_and_compare([(None, second)], True, full, thetas, label, f'{proto}:second={second}')
                                nas.cost_specification = {'params': params, 'ops': ops}
                                res['transitions'] += 1
                            elif proto == 'spec-dict':
                                kind = DICT_ROT[var % len(DICT_ROT)]
                                forward(cfg)
                                thetas = read_thetas()
                                assign_and_compare(DICT_KINDS[kind], False, full, thetas, label, f'{proto}:{kind}')
                                nas.cost_specification = {'params': params, 'ops': ops}
                                res['transitions'] += 1
                            else:
                                forward(cfg)
                                thetas = read_thetas()
                            with torch.no_grad():
                                got = {k: float(nas.get_cost(k)) for k in ('params', 'ops')}
                        except Exception as e:
                            add('cost-raises', 'cost-raises' + ('' if tag is None else '/proto=' + tag), f'{type(e).__name__}: {str(e)[:200]}', label)
                            aborted = True
                        if not aborted:
                            compare(got, D0, full, thetas, label, tag)
                            # hard selection: full cost == cost of the exported network
                            if mode == 'hard' and full and not any(sb['branches'][int(torch.argmax(th))] == 'fblk' for sb, th in zip(sblocks, thetas)):
                                try:
                                    with torch.no_grad():
                                        exp = nas.export()
                                        r = D.ref_costs(exp, x, None)
                                    for metric in ('params', 'ops'):
                                        res['evals'] += 1
                                        if abs(got[metric] - r[metric]) > 1e-3 + 2e-5 * abs(r[metric]):
                                            if metric == 'ops' and two_res and abs(got[metric] - d45_prediction(full, thetas)) <= 1e-3 + 2e-5 * abs(got[metric]):
                                                add('hard-cost-differs-from-export', 'hard-cost-differs-from-export/ops/block-invoked-at-two-resolutions-charged-first-resolution-twice',
                                                    f'hard selection, full_cost: get_cost(ops)={got[metric]} but the exported network costs {r[metric]}: every invocation '
                                                    f'of the block is charged the output shape of the FIRST one', label)
                                                continue
                                            add('hard-cost-differs-from-export', f'hard-cost-differs-from-export/{metric}' + ('' if tag is None else '/proto=' + tag),
                                                f'hard selection, full_cost: get_cost({metric})={got[metric]} but the exported network costs {r[metric]}', label)
                                except Exception as e:
                                    add('export-raises', 'export-raises' + ('' if tag is None else '/proto=' + tag), f'{type(e).__name__}: {str(e)[:200]}', label)
                            res['outcomes'].add('checked')
                            res['nontrivial'].append(f'{ssig}/{vi}/{T}/{mode}/{training}/{full}' + ('' if proto == 'plain' else f'/{proto}.{var}'))
                        # every state leaves the live object with the original dictionary specification and a trainable selection
                        try:
                            if proto == 'ts-off':
                                nas.train_selection = True
                                res['transitions'] += 1
                            if aborted and proto.startswith('spec'):
                                nas.cost_specification = {'params': params, 'ops': ops}
                        except Exception as e:
                            add('cost-raises', f'cost-raises/proto={proto}:restore', f'{type(e).__name__}: {str(e)[:200]}', label)
                        if proto.startswith('spec'):
                            del trail[:]
                        trail.append(label)
                        del trail[:-TRAIL]
    if not wanted and res['violations']:
        # smallest replayable case: the state alone whenever that reproduces the violation on a fresh SuperNet, else the state preceded
        # by the recorded part of the history (first violation of every signature; the others keep the history, which is always valid)
        firsts = {}
        for v in res['violations']:
            firsts.setdefault(v['sig'], v)
        by_state = {}
        for v in firsts.values():
            if 'after' in v['case']:
                by_state.setdefault(repr(sorted(v['case']['only'].items())), []).append(v)
        for vs in by_state.values():
            single = dict(base_case, only=vs[0]['case']['only'])
            try:
                alone = {w['sig'] for w in run_case(single, seed)['violations']}
            except Exception:
                alone = set()
            for v in vs:
                if v['sig'] in alone:
                    v['case'] = dict(single)
    res['outcomes'] = sorted(res['outcomes'])
    res['sample'] = {'prog': prog, 'branch_costs': {bn: [(br['params'], br['ops']) for br in blocks[bn]['branches']] for bn in bnames},
                     'fixed': fixed, 'vectors_per_block': [len(v) for v in vecs]}
    return res
