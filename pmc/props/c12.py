"""C12 - cost is a differentiable, monotone function of the architecture only.

Configuration lattice with EDGE invariants, executed on the real models:
 (P) PIT: every mask parameter (alpha / beta / gamma entries that are not keep-alive) takes a value from the grid
     {0.2, 0.4, 0.6, 1.0} (off the abs() kink and off the 0.5 threshold); complete 4^n lattice when n <= bound, else all
     one-element deviations from each uniform assignment.  Per state: every built-in cost (continuous and discrete) finite, >= 0,
     gradient w.r.t. mask parameters finite, none / zero w.r.t. network weights, unchanged after re-drawing all weights and a
     forward on other data.  Per EDGE (one element raised by one grid step): no built-in cost decreases, and when it increases the
     gradient component of that element is non-zero.  Top element (all 1.0): continuous == discrete == cost of the original model.
     Protocol 'deepcopy' (every third program quick / all thorough): the same lattice with all of these oracles is explored on a
     copy.deepcopy of the converted model while the converted model itself stays alive with OTHER masks (every element at the lowest
     grid value); in addition no parameter of that other object may receive a gradient from the copy's cost and its own cost stays put.
 (S) SuperNet, (M) MPS per-layer / per-channel: coefficient grids in soft mode at T in {1, 20}: finite, >= 0, weight/data independent,
     finite gradients, non-zero for coefficients whose increase (finite difference) raises the metric, none to network weights;
     hard / T = 0.05: finiteness only.  (M, O) in every 6th (state, mode) visit quick / every visit thorough: cost read, nas.export(),
     cost read again (no forward, no mode change, no parameter change in between): identical values.
 (O) ODiMO_MPS with its default DIANA latency and parallel-accelerator reduction, weights in {2, 8} and 8-bit activations (the
     configuration the property names): the complete soft-mode oracle of (M), single and dictionary specification; and with the
     constructor's own default qinfo: the cost can be evaluated at all.
"""
import copy
import itertools

import torch
import torch.nn as nn

from .. import pitdrv as D
from ..grammar import pit as GP
from ..grammar import net2d as G2
from ..grammar import sn as GS
from ..grammar import mps as GM

PID = 'C12'
GRID = [0.2, 0.4, 0.6, 1.0]
RULE = ('(P) PIT programs (single / stacked Conv1d with k in {2,3,4,5}, residual, concat, depthwise, twice, 2D conv, BN) x mask-value lattice ' + str(GRID) +
        '^n (complete for n <= 5 quick / 7 thorough, one-element deviations from uniform beyond) x specs {params, params_no_bias, ops, ops_no_bias, gap8 (2D)} x '
        '{continuous, discrete}; every +1-step edge of the lattice is checked for monotonicity and gradient; (S) SuperNets x coefficient grid x T; (M) MPS per-layer / '
        'per-channel x coefficient grid x T x {params_bit, ops_bit, mpic_latency, ne16_latency (8-bit activations)}; (O) ODiMO_MPS (default cost + reduction, w in {2,8}, a = 8) x coefficient grid x T, + the all-default constructor; '
        'non-trivial = a state with at least one mask value below 1.0 / a non-uniform coefficient vector; '
        'protocol P-deepcopy (programs with index % 3 == 1 quick, all thorough): the lattice is explored on copy.deepcopy(converted model) while the '
        'converted model stays alive with every mask element at ' + str(GRID[0]) + ' (all per-state / per-edge / top oracles on the copy + no gradient '
        'into, and no cost change of, the other object); protocol export-between-reads (M, O; every 6th (state, mode) visit quick, every visit '
        'thorough): get_cost, export(), get_cost again must agree')
ASSUMPTIONS = ['mask values are positive grid values off the abs() kink and off the binarisation threshold',
               '"raises the metric" is decided by a finite difference: one grid step (PIT), delta = 0.05 (MPS / SuperNet soft mode)',
               'in hard / arg-max mode and at T = 0.05 the softmax Jacobian legitimately underflows: only finiteness is asserted there',
               '"of the architecture only" is read per OBJECT: a deep copy is an independent model whose cost follows its own masks and whose '
               'gradient reaches its own parameters only',
               '"of the architecture only" excludes the history of observer calls: export() between two cost reads (same mode, no forward) '
               'changes nothing; an export() that raises in a state is recorded as an outcome, not as a violation of this property']


def bounds(tier):
    return {'quick': {'complete_upto_elements': 5, 'deepcopy_protocol_programs': 'index % 3 == 1, fold_bn False', 'export_between_reads_every': 6},
            'thorough': {'complete_upto_elements': 7, 'deepcopy_protocol_programs': 'all', 'export_between_reads_every': 1}}[tier]


PIT_PROGS = [
    {'dim': 1, 'cin': 2, 'size': 8, 'stages': [{'op': 'conv', 'cout': 2, 'k': 3}], 'head': {'kind': 'flatlin', 'out': 2}},
    {'dim': 1, 'cin': 2, 'size': 8, 'stages': [{'op': 'conv', 'cout': 2, 'k': 4}], 'head': {'kind': 'flatlin', 'out': 2}},
    {'dim': 1, 'cin': 2, 'size': 8, 'stages': [{'op': 'conv', 'cout': 2, 'k': 5, 'bias': False}], 'head': {'kind': 'gaplin'}},
    {'dim': 1, 'cin': 2, 'size': 8, 'stages': [{'op': 'conv', 'cout': 2, 'k': 2}, {'op': 'conv', 'cout': 3, 'k': 2, 'bn': True}], 'head': {'kind': 'flatlin', 'out': 2}},
    {'dim': 1, 'cin': 2, 'size': 8, 'stages': [{'op': 'conv', 'cout': 3, 'k': 1}, {'op': 'conv', 'dw': True, 'k': 3}], 'head': {'kind': 'fcn'}},
    {'dim': 1, 'cin': 2, 'size': 8, 'stages': [{'op': 'residual', 'cout': 3, 'a': {'k': 2}, 'b': {'k': 1}}], 'head': {'kind': 'flatlin', 'out': 2}},
    {'dim': 1, 'cin': 2, 'size': 8, 'stages': [{'op': 'concat', 'members': ['conv2', 'id', 'conv2'], 'k': 1}, {'op': 'conv', 'cout': 2, 'k': 1}], 'head': {'kind': 'gaplin'}},
    {'dim': 1, 'cin': 2, 'size': 8, 'stages': [{'op': 'twice', 'cout': 2, 'a': {'k': 2}}], 'head': {'kind': 'flatlin', 'out': 2}},
    {'dim': 1, 'cin': 2, 'size': 8, 'stages': [{'op': 'conv', 'cout': 3, 'k': 3, 's': 2}, {'op': 'conv', 'cout': 2, 'k': 1}], 'head': {'kind': 'flatlin', 'out': 2}},
    {'dim': 2, 'cin': 2, 'size': 6, 'stages': [{'op': 'conv', 'cout': 4}, {'op': 'conv', 'cout': 3, 'k': 1}], 'head': {'kind': 'flatlin', 'out': 2}},
    {'dim': 2, 'cin': 2, 'size': 6, 'stages': [{'op': 'conv', 'cout': 3, 'bn': True}, {'op': 'conv', 'dw': True}, {'op': 'pool', 'kind': 'max'}], 'head': {'kind': 'gaplin'}},
    {'dim': 2, 'cin': 2, 'size': 6, 'stages': [{'op': 'residual', 'cout': 3}, {'op': 'conv', 'cout': 2, 'k': 1}], 'head': {'kind': 'flatlin', 'out': 2}},
    {'dim': 1, 'cin': 2, 'size': 8, 'stages': [{'op': 'conv', 'cout': 2, 'k': 7}], 'head': {'kind': 'flatlin', 'out': 2}},
    {'dim': 1, 'cin': 2, 'size': 8, 'stages': [{'op': 'conv', 'cout': 2, 'k': 9, 'd': 2}], 'head': {'kind': 'gaplin'}},
    # concat pooling: the operands of the concat are different nodes deriving from the same layer
    {'dim': 1, 'cin': 2, 'size': 8, 'stages': [{'op': 'conv', 'cout': 3, 'k': 1}, {'op': 'concat', 'members': ['mp', 'ap']}, {'op': 'conv', 'cout': 2, 'k': 1}],
     'head': {'kind': 'gaplin'}},
    {'dim': 2, 'cin': 2, 'size': 6, 'stages': [{'op': 'conv', 'cout': 3, 'k': 1}, {'op': 'concat', 'members': ['id', 'mp']}], 'head': {'kind': 'flatlin', 'out': 2}},
]

SN_PROGS = [
    {'cin': 3, 'size': 6, 'stages': [{'op': 'conv', 'cout': 4}, {'op': 'sn', 'branches': ['c3', 'c1', 'id']}], 'head': 'flatlin'},
    {'cin': 3, 'size': 6, 'stages': [{'op': 'conv', 'cout': 4}, {'op': 'sn', 'branches': ['seq', 'dw', 'c5', 'blk'], 'twice': True}], 'head': 'gaplin'},
    {'cin': 3, 'size': 6, 'stages': [{'op': 'sn', 'branches': ['c3', 'c1'], 'cout': 4}, {'op': 'pool'}, {'op': 'sn', 'branches': ['c1', 'nest', 'id']}], 'head': 'flatlin'},
]

MPS_PROGS = [
    {'cin': 3, 'size': 6, 'stages': [{'op': 'conv', 'cout': 3}], 'head': 'flatlin'},
    {'cin': 3, 'size': 6, 'stages': [{'op': 'conv', 'cout': 3, 'bn': True}, {'op': 'conv', 'dw': True}], 'head': 'gaplin'},
    {'cin': 3, 'size': 6, 'stages': [{'op': 'conv', 'cout': 3}, {'op': 'skipadd'}, {'op': 'pool'}], 'head': 'linlin'},
]


# ODiMO / DIANA: the analog accelerator model rejects grouped convolutions, so no depthwise stages here
ODIMO_PROGS = [
    {'cin': 3, 'size': 6, 'stages': [{'op': 'conv', 'cout': 3}], 'head': 'flatlin'},
    {'cin': 3, 'size': 6, 'stages': [{'op': 'conv', 'cout': 4, 'bn': True}, {'op': 'conv', 'cout': 3, 'k': 1}], 'head': 'gaplin'},
    {'cin': 3, 'size': 6, 'stages': [{'op': 'conv', 'cout': 3}, {'op': 'skipadd'}, {'op': 'pool'}], 'head': 'linlin'},
]


def cases(tier, seed):
    out = []
    for i, p in enumerate(PIT_PROGS):
        for fold in ((False, True) if GP.has_bn(p) else (False,)):
            for shard in range(len(GRID)):     # the lattice is sharded by the value of its first element (pool parallelism only)
                out.append({'fam': 'P', 'prog': p, 'fold_bn': fold, 'tier': tier, 'shard': shard})
    # protocol 'deepcopy': the lattice explored on a deep copy while the converted model stays alive with other masks
    for i, p in enumerate(PIT_PROGS):
        if tier != 'thorough' and i % 3 != 1:
            continue
        for fold in ((False, True) if GP.has_bn(p) and tier == 'thorough' else (False,)):
            for shard in range(len(GRID)):
                out.append({'fam': 'P', 'prog': p, 'fold_bn': fold, 'tier': tier, 'shard': shard, 'proto': 'deepcopy'})
    for p in SN_PROGS:
        out.append({'fam': 'S', 'prog': p, 'tier': tier})
    for p in MPS_PROGS:
        for mode in ('layer', 'channel', 'channel0'):
            out.append({'fam': 'M', 'prog': p, 'mode': mode, 'tier': tier})
    out.append({'fam': 'O', 'prog': MPS_PROGS[0], 'tier': tier, 'mode': 'default-qinfo'})
    out.append({'fam': 'O', 'prog': ODIMO_PROGS[1], 'tier': tier, 'mode': 'default-qinfo'})
    for p in ODIMO_PROGS:
        out.append({'fam': 'O', 'prog': p, 'tier': tier, 'mode': 'soft'})
    out.append({'fam': 'O', 'prog': ODIMO_PROGS[1], 'tier': tier, 'mode': 'soft-dict'})
    return out


# ----------------------------------------------------------------------------------------------
def _redraw(nas, skip):
    with torch.no_grad():
        for n, p in nas.named_parameters():
            if id(p) not in skip:
                p.copy_(torch.randn_like(p) * 0.7)


def _mask_elements(nas):
    """every mask parameter entry that is not forced alive and belongs to a non-frozen masker: (param, index, name)"""
    from plinio.methods.pit.nn.features_masker import PITFeaturesMasker
    from plinio.methods.pit.nn.timestep_masker import PITTimestepMasker, PITFrozenTimestepMasker
    from plinio.methods.pit.nn.dilation_masker import PITDilationMasker, PITFrozenDilationMasker
    els, seen = [], set()
    for n, m in nas.named_modules():
        if id(m) in seen:
            continue
        if type(m) is PITFeaturesMasker:
            seen.add(id(m))
            ka = m._keep_alive
            els += [(m.alpha, i, f'{n}.alpha[{i}]') for i in range(m.alpha.numel()) if ka[i] == 0]
        elif type(m) is PITTimestepMasker:
            seen.add(id(m))
            ka = m._keep_alive
            els += [(m.beta, i, f'{n}.beta[{i}]') for i in range(m.beta.numel()) if ka[i] == 0]
        elif type(m) is PITDilationMasker:
            seen.add(id(m))
            ka = m._keep_alive
            els += [(m.gamma, i, f'{n}.gamma[{i}]') for i in range(m.gamma.numel()) if ka[i] == 0]
    return els


def _run_P(case, seed, res, add, cur):
    from plinio.cost import params, params_no_bias, ops, ops_no_bias, gap8_latency
    prog, fold = case['prog'], case['fold_bn']
    tier = case.get('tier', 'quick')
    specs = {'params': params, 'params_nb': params_no_bias, 'ops': ops, 'ops_nb': ops_no_bias}
    if prog['dim'] == 2:
        specs['gap8'] = gap8_latency
    ctx = D.make_pit(prog, seed, fold_bn=fold, cost=dict(specs))
    if 'error' in ctx:
        add('conversion-raises', 'conversion-raises/pit', f'{type(ctx["error"]).__name__}: {ctx["error"]}')
        return
    nas, x, model = ctx['pit'], ctx['x'], ctx['model']
    proto = case.get('proto')
    other = None
    if proto == 'deepcopy':
        # the lattice is explored on a deep copy; the converted model itself stays alive and holds DIFFERENT, fixed masks
        other = nas
        nas = copy.deepcopy(other)
        with torch.no_grad():
            for (p, i, _) in _mask_elements(other):
                p[i] = GRID[0]
        other.train()
        other_named = [(nm, p) for nm, p in other.named_parameters() if p.requires_grad]
        with torch.no_grad():
            other_cost0 = {}
            for d in (False, True):
                other.discrete_cost = d
                other_cost0[d] = {k: float(other.get_cost(k)) for k in specs}
        add0 = add

        def add(kind, sig, msg):
            add0(kind, sig + '/on-deepcopy', f'[explored on copy.deepcopy(converted model); the converted model is alive with every mask at {GRID[0]}] ' + msg)
    nas.train()
    els = _mask_elements(nas)
    n = len(els)
    nas_ids = {id(p) for p in nas.nas_parameters()}
    G = len(GRID)
    if n <= bounds(tier)['complete_upto_elements']:
        states = list(itertools.product(range(G), repeat=n))
        complete = True
    else:
        states = []
        for u in range(G):
            states.append(tuple([u] * n))
            for i in range(n):
                for v in range(G):
                    if v != u:
                        t = [u] * n
                        t[i] = v
                        states.append(tuple(t))
        states = list(dict.fromkeys(states))
        complete = False
    stset = set(states)
    only = case.get('only')
    if only is not None and only.get('final'):
        only = None         # the end-of-exploration oracle of the deep-copy protocol replays the whole shard

    def setstate(st):
        with torch.no_grad():
            for (p, i, _), v in zip(els, st):
                p[i] = GRID[v]

    def costs(disc):
        nas.discrete_cost = disc
        return {k: nas.get_cost(k) for k in specs}

    cache = {}

    def value(st):
        if st not in cache:
            setstate(st)
            with torch.no_grad():
                cache[st] = {d: {k: float(v) for k, v in costs(d).items()} for d in (False, True)}
        return cache[st]

    # reference for the top element
    searchable = {nm for nm, _ in D.pit_layers(nas)}
    shard = case.get('shard')
    for si, st in enumerate(states):
        label = {'state': list(st)}
        if only is not None and only.get('state') != list(st):
            continue
        if shard is not None and n > 0 and st[0] != shard:
            continue
        cur[0] = label
        res['states'] += 1
        vals = value(st)
        desc = {nm: GRID[v] for (_, _, nm), v in zip(els, st)}
        # per state: finite, >= 0
        for d in (False, True):
            for k, v in vals[d].items():
                res['evals'] += 1
                if not (v == v and abs(v) != float('inf')) or v < 0:
                    add('cost-not-finite-nonnegative', f'cost-not-finite-nonnegative/pit/{k}', f'masks {desc}: get_cost({k}) discrete={d} = {v}')
        # gradients (continuous and discrete) at this state
        setstate(st)
        grads = {}
        for d in (False, True):
            cs = costs(d)
            for k, c in cs.items():
                if not c.requires_grad:
                    grads[(d, k)] = None
                    continue
                named = [(nm, p) for nm, p in nas.named_parameters() if p.requires_grad]
                plist = [p for _, p in named]
                g = torch.autograd.grad(c, plist + ([p for _, p in other_named] if other is not None else []), allow_unused=True, retain_graph=False)
                if other is not None:
                    g, g_other = g[:len(plist)], g[len(plist):]
                    leak = [nm for (nm, p), gg in zip(other_named, g_other) if gg is not None and float(gg.abs().sum()) != 0.0]
                    res['evals'] += 1
                    if leak:
                        add('gradient-to-another-model', f'gradient-to-another-model/pit/{k}',
                            f'masks {desc}: the gradient of get_cost({k}) discrete={d} of the copy reaches parameters of the model it was copied from: {leak[:3]}')
                bad_net = [nm for (nm, p), gg in zip(named, g) if id(p) not in nas_ids and gg is not None and float(gg.abs().sum()) != 0.0]
                if bad_net:
                    add('gradient-to-network-weights', f'gradient-to-network-weights/pit/{k}', f'masks {desc}: d get_cost({k})/d {bad_net[:3]} != 0')
                gm = {id(p): gg for p, gg in zip(plist, g)}
                nonfinite = [nm for (p, i, nm) in els if gm.get(id(p)) is not None and not torch.isfinite(gm[id(p)]).all()]
                if nonfinite:
                    add('gradient-not-finite', f'gradient-not-finite/pit/{k}', f'masks {desc}: gradient of get_cost({k}) w.r.t. {nonfinite[:3]} is not finite')
                grads[(d, k)] = gm
        # independence from weights and data (on a systematic third of the states, and always at the corners)
        if si % 3 == 0 or st in (tuple([0] * n), tuple([G - 1] * n)):
            sd = {nm: p.detach().clone() for nm, p in nas.named_parameters()}
            torch.manual_seed(seed + 17 + si)
            _redraw(nas, nas_ids)
            with torch.no_grad():
                nas(torch.randn_like(x) * 3)
                again = {d: {k: float(v) for k, v in costs(d).items()} for d in (False, True)}
            with torch.no_grad():
                for nm, p in nas.named_parameters():
                    p.copy_(sd[nm])
            for d in (False, True):
                for k in specs:
                    if abs(again[d][k] - vals[d][k]) > 1e-4 * max(1.0, abs(vals[d][k])):
                        add('cost-depends-on-weights-or-data', f'cost-depends-on-weights-or-data/pit/{k}',
                            f'masks {desc}: get_cost({k}) discrete={d} changed from {vals[d][k]} to {again[d][k]} after re-drawing the weights and a forward on other data')
        # a function of the architecture only: assigning the (same) cost specification again through the public setter while the
        # masks are in this state must not change any value
        if si % 3 == 2:
            nas.cost_specification = dict(specs)
            with torch.no_grad():
                again = {d: {k: float(v) for k, v in costs(d).items()} for d in (False, True)}
            for d in (False, True):
                for k in specs:
                    res['evals'] += 1
                    if abs(again[d][k] - vals[d][k]) > 1e-4 * max(1.0, abs(vals[d][k])):
                        add('cost-depends-on-query-history', f'cost-depends-on-query-history/pit/{k}/spec-reassigned',
                            f'masks {desc}: get_cost({k}) discrete={d} changed from {vals[d][k]} to {again[d][k]} after assigning the same cost '
                            f'specification again in this state')
        # a function of the architecture only: a fresh twin with the same masks, metrics queried in the reverse order
        if si % 16 == 1:
            ctx2 = D.make_pit(prog, seed, fold_bn=fold, cost=dict(specs))
            nas2 = ctx2['pit']
            nas2.train()
            els2 = _mask_elements(nas2)
            with torch.no_grad():
                for (p2, i2, _), v in zip(els2, st):
                    p2[i2] = GRID[v]
                for d in (True, False):
                    nas2.discrete_cost = d
                    for k in reversed(list(specs)):
                        res['evals'] += 1
                        o = float(nas2.get_cost(k))
                        if abs(o - vals[d][k]) > 1e-4 * max(1.0, abs(vals[d][k])):
                            add('cost-depends-on-query-history', f'cost-depends-on-query-history/pit/{k}',
                                f'masks {desc}: get_cost({k}) discrete={d} = {vals[d][k]} on the explored model, {o} on a fresh model with the same masks '
                                f'queried in the reverse order')
        # edges: raise one element one grid step
        for i in range(n):
            if st[i] + 1 >= G:
                continue
            up = st[:i] + (st[i] + 1,) + st[i + 1:]
            if up not in stset:
                continue
            res['transitions'] += 1
            vu = value(up)
            for d in (False, True):
                for k in specs:
                    res['evals'] += 1
                    a, b = vals[d][k], vu[d][k]
                    if b < a - 1e-4 * max(1.0, abs(a)):
                        add('cost-decreases-when-mask-grows', f'cost-decreases-when-mask-grows/pit/{k}/' + els[i][2].rsplit('.', 1)[1].split('[')[0],
                            f'raising {els[i][2]} from {GRID[st[i]]} to {GRID[up[i]]} (other masks {desc}) lowers get_cost({k}) discrete={d} from {a} to {b}')
                    elif b > a + 1e-4 * max(1.0, abs(a)):
                        gm = grads.get((d, k))
                        p, idx, nm = els[i]
                        gg = None if gm is None else gm.get(id(p))
                        if p.requires_grad and (gg is None or float(gg[idx]) == 0.0):
                            add('zero-gradient-although-cost-rises', f'zero-gradient-although-cost-rises/pit/{k}/disc={int(d)}/' + nm.rsplit('.', 1)[1].split('[')[0],
                                f'raising {nm} from {GRID[st[i]]} to {GRID[up[i]]} raises get_cost({k}) discrete={d} from {a} to {b} but its gradient component is '
                                f'{None if gg is None else float(gg[idx])} (masks {desc})')
        if any(v < G - 1 for v in st):
            res['nontrivial'].append(f'P{"-" + proto if proto else ""}/{_psig(prog)}/{fold}/{st}')
    # top element == original model
    top = tuple([G - 1] * n)
    if (only is None or only.get('state') == list(top)) and shard in (None, G - 1):
        cur[0] = {'state': list(top)}
        if not fold:
            vals = value(top)
            ref = D.ref_costs(model, x, searchable)
            for d in (False, True):
                for k in ('params', 'params_nb', 'ops', 'ops_nb'):
                    res['evals'] += 1
                    if abs(vals[d][k] - ref[k]) > 1e-3 + 1e-5 * abs(ref[k]):
                        add('open-masks-cost-differs-from-original', f'open-masks-cost-differs-from-original/pit/{k}',
                            f'all masks open: get_cost({k}) discrete={d} = {vals[d][k]} but the original model costs {ref[k]}')
    if other is not None and only is None:
        # the other object was never touched: its cost is what it was before the copy was explored
        cur[0] = {'final': True}
        with torch.no_grad():
            for d in (False, True):
                other.discrete_cost = d
                for k in specs:
                    res['evals'] += 1
                    o = float(other.get_cost(k))
                    if abs(o - other_cost0[d][k]) > 1e-4 * max(1.0, abs(other_cost0[d][k])):
                        add('cost-of-another-model-changed', f'cost-of-another-model-changed/pit/{k}',
                            f'get_cost({k}) discrete={d} of the converted model (masks never touched) went from {other_cost0[d][k]} to {o} while its deep copy was explored')
    res['sample'] = {'fam': 'P', 'prog': prog, 'mask_elements': [nm for _, _, nm in els], 'states': len(states), 'complete_lattice': complete}
    if proto:
        res['sample']['proto'] = proto


# ----------------------------------------------------------------------------------------------
def _coef_states(shapes, tier):
    """coefficient assignments for a list of coefficient tensors: uniform + one-element deviations on the value grid"""
    grid = [-1.0, 0.0, 0.5, 2.0]
    out = []
    for u in grid[1:3]:
        base = [torch.full(s, u) for s in shapes]
        out.append([b.clone() for b in base])
        for ti, s in enumerate(shapes):
            n = int(torch.tensor(s).prod())
            for i in range(min(n, 6)):
                for v in grid:
                    if v != u:
                        t = [b.clone() for b in base]
                        t[ti].view(-1)[i] = v
                        out.append(t)
    return out


def _run_soft(case, seed, res, add, cur, nas, x, coef_params, specs, fam, temps_modes, set_opts, twin=None, export_probe=False):
    nas_ids = {id(p) for p in nas.nas_parameters()}
    states = _coef_states([tuple(p.shape) for p in coef_params], case.get('tier', 'quick'))
    only = case.get('only')
    every = bounds(case.get('tier', 'quick'))['export_between_reads_every']
    for si, st in enumerate(states):
        for mi, (T, hard) in enumerate(temps_modes):
            label = {'state': si, 'T': T, 'hard': hard}
            if only is not None and only != label:
                continue
            cur[0] = label
            set_opts(T, hard)
            with torch.no_grad():
                for p, v in zip(coef_params, st):
                    p.copy_(v)
            nas.train()
            torch.manual_seed(5)
            nas(x)
            res['states'] += 1
            cs = {k: nas.get_cost(k) for k in specs}
            vals = {k: float(v) for k, v in cs.items()}
            for k, v in vals.items():
                res['evals'] += 1
                if not (v == v and abs(v) != float('inf')) or v < -1e-6:
                    add('cost-not-finite-nonnegative', f'cost-not-finite-nonnegative/{fam}/{k}', f'{label}: get_cost({k}) = {v}')
            grads = {}
            for k, c in cs.items():
                if not c.requires_grad:
                    continue
                named = [(nm, p) for nm, p in nas.named_parameters() if p.requires_grad]
                plist = [p for _, p in named]
                g = torch.autograd.grad(c, plist, allow_unused=True, retain_graph=True)
                bad_net = [nm for (nm, p), gg in zip(named, g) if id(p) not in nas_ids and gg is not None and float(gg.abs().sum()) != 0.0]
                if bad_net:
                    add('gradient-to-network-weights', f'gradient-to-network-weights/{fam}/{k}', f'{label}: d get_cost({k})/d {bad_net[:3]} != 0')
                gm = {id(p): gg for p, gg in zip(plist, g)}
                for p in coef_params:
                    if gm.get(id(p)) is not None and not torch.isfinite(gm[id(p)]).all():
                        add('gradient-not-finite', f'gradient-not-finite/{fam}/{k}', f'{label}: non-finite gradient of get_cost({k}) w.r.t. a coefficient tensor')
                grads[k] = gm
            # a function of the architecture ONLY, not of the history of observer calls: cost read, export(), cost read again - same
            # mode, no forward, no parameter change in between - must give the same values
            if export_probe and (si + mi) % every == (2 % every):
                with torch.no_grad():
                    first = {k: float(nas.get_cost(k)) for k in specs}
                was_training = nas.training
                try:
                    nas.export()
                    exported = True
                except Exception:
                    exported = False
                    res['outcomes'].add('export-raises-in-this-state')
                if exported:
                    with torch.no_grad():
                        second = {k: float(nas.get_cost(k)) for k in specs}
                    for k in specs:
                        res['evals'] += 1
                        if abs(second[k] - first[k]) > 1e-4 * max(1.0, abs(first[k])) or abs(first[k] - vals[k]) > 1e-4 * max(1.0, abs(vals[k])):
                            add('cost-depends-on-query-history', f'cost-depends-on-query-history/{fam}/{k}/export-between-reads',
                                f'{label}: get_cost({k}) = {vals[k]}, read again {first[k]}, and {second[k]} after nas.export() (training={was_training} '
                                f'before, {nas.training} after; no forward and no change of any parameter in between)')
                # whatever export() left behind, the remaining oracles of this state start from a fresh training-mode forward
                nas.train()
                torch.manual_seed(5)
                nas(x)
            # a function of the architecture ONLY: a freshly built twin with the same coefficients and options, queried in the
            # REVERSE metric order, must report the same values (no dependence on the history of cost queries)
            if twin is not None and si % 4 == 1:
                nas2, coefs2, set_opts2 = twin()
                set_opts2(T, hard)
                with torch.no_grad():
                    for p2, v in zip(coefs2, st):
                        p2.copy_(v)
                    nas2.train()
                    torch.manual_seed(5)
                    nas2(x)
                    other = {k: float(nas2.get_cost(k)) for k in reversed(list(specs))}
                for k in specs:
                    res['evals'] += 1
                    if abs(other[k] - vals[k]) > 1e-4 * max(1.0, abs(vals[k])):
                        add('cost-depends-on-query-history', f'cost-depends-on-query-history/{fam}/{k}',
                            f'{label}: get_cost({k}) = {vals[k]} on the explored model but {other[k]} on a fresh model with the same coefficients whose '
                            f'metrics are queried in the reverse order')
            # weight / data independence
            if si % 4 == 0:
                sd = {nm: p.detach().clone() for nm, p in nas.named_parameters()}
                torch.manual_seed(seed + 23 + si)
                _redraw(nas, nas_ids)
                with torch.no_grad():
                    torch.manual_seed(5)
                    nas(torch.rand_like(x))
                    again = {k: float(nas.get_cost(k)) for k in specs}
                    for nm, p in nas.named_parameters():
                        p.copy_(sd[nm])
                for k in specs:
                    if abs(again[k] - vals[k]) > 1e-4 * max(1.0, abs(vals[k])):
                        add('cost-depends-on-weights-or-data', f'cost-depends-on-weights-or-data/{fam}/{k}',
                            f'{label}: get_cost({k}) changed from {vals[k]} to {again[k]} after re-drawing the weights and a forward on other data')
            # finite differences (soft mode, T >= 1 only)
            if not hard and T >= 1.0 and (case.get('tier') == 'thorough' or (si + int(T)) % 3 == 0):
                delta = 0.05
                for pi, p in enumerate(coef_params):
                    if not p.requires_grad:
                        continue
                    for i in range(min(p.numel(), 6)):
                        res['transitions'] += 1
                        with torch.no_grad():
                            old = float(p.view(-1)[i])
                            p.view(-1)[i] = old + delta
                            torch.manual_seed(5)
                            nas(x)
                            up = {k: float(nas.get_cost(k)) for k in specs}
                            p.view(-1)[i] = old
                        for k in specs:
                            res['evals'] += 1
                            if up[k] > vals[k] + 1e-5 * max(1.0, abs(vals[k])):
                                gg = grads.get(k, {}).get(id(p))
                                if gg is None or float(gg.view(-1)[i]) == 0.0:
                                    add('zero-gradient-although-cost-rises', f'zero-gradient-although-cost-rises/{fam}/{k}',
                                        f'{label}: raising coefficient {pi}[{i}] by {delta} raises get_cost({k}) from {vals[k]} to {up[k]} but its gradient component is '
                                        f'{None if gg is None else float(gg.view(-1)[i])}')
                with torch.no_grad():
                    torch.manual_seed(5)
                    nas(x)
            res['nontrivial'].append(f'{fam}/{si}/{T}/{hard}')


def _run_S(case, seed, res, add, cur):
    from plinio.cost import params, params_no_bias, ops, ops_no_bias, gap8_latency
    from .c03 import make
    prog = case['prog']
    specs = {'params': params, 'params_nb': params_no_bias, 'ops': ops, 'ops_nb': ops_no_bias, 'gap8': gap8_latency}
    nas, x, _ = make(prog, seed, cost=dict(specs))
    combs = GS.combiners(nas)

    def set_opts(T, hard):
        nas.update_softmax_options(temperature=T, hard=hard)

    def twin():
        n2, _, _ = make(prog, seed, cost=dict(specs))
        return n2, [m.alpha for _, m in GS.combiners(n2)], lambda T, hard: n2.update_softmax_options(temperature=T, hard=hard)
    _run_soft(case, seed, res, add, cur, nas, x, [m.alpha for _, m in combs], specs, 'sn',
              [(1.0, False), (20.0, False), (0.05, False), (1.0, True)], set_opts, twin)
    res['sample'] = {'fam': 'S', 'prog': prog, 'combiners': [m.n_branches for _, m in combs]}


def _run_M(case, seed, res, add, cur):
    from plinio.cost import params_bit, ops_bit, mpic_latency, ne16_latency
    from plinio.methods.mps import MPS, MPSType, get_default_qinfo
    prog, mode = case['prog'], case['mode']
    specs = {'params_bit': params_bit, 'ops_bit': ops_bit}
    w = (2, 4, 8) if mode != 'channel0' else (0, 2, 4, 8)
    has_dw = any(s.get('dw') for s in prog['stages'])
    if mode == 'layer':
        a = (2, 4, 8)
        specs['mpic'] = mpic_latency
    else:
        a = (8,)
        specs['mpic'] = mpic_latency
        specs['ne16'] = ne16_latency
    model, x = G2.build(prog, seed)
    nas = MPS(model, input_shape=G2.input_shape(prog), qinfo=get_default_qinfo(w_precision=w, a_precision=a), cost=dict(specs),
              w_search_type=MPSType.PER_LAYER if mode == 'layer' else MPSType.PER_CHANNEL)
    sels = GM.selectors(nas)

    def set_opts(T, hard):
        nas.update_softmax_options(temperature=T, hard=hard, gumbel=False, disable_sampling=False)

    def twin():
        m2, _ = G2.build(prog, seed)
        n2 = MPS(m2, input_shape=G2.input_shape(prog), qinfo=get_default_qinfo(w_precision=w, a_precision=a), cost=dict(specs),
                 w_search_type=MPSType.PER_LAYER if mode == 'layer' else MPSType.PER_CHANNEL)
        return n2, [m.alpha for _, m in GM.selectors(n2)], \
            lambda T, hard: n2.update_softmax_options(temperature=T, hard=hard, gumbel=False, disable_sampling=False)
    _run_soft(case, seed, res, add, cur, nas, x, [m.alpha for _, m in sels], specs, 'mps-' + mode,
              [(1.0, False), (20.0, False), (0.05, False), (1.0, True)], set_opts, twin, export_probe=True)
    res['sample'] = {'fam': 'M', 'prog': prog, 'mode': mode, 'selectors': [n for n, _ in sels], 'metrics': sorted(specs)}


def _odimo(prog, seed, default_qinfo=False, as_dict=False):
    from plinio.methods.odimo_mps import ODiMO_MPS
    from plinio.methods.odimo_mps.odimo_mps import get_default_qinfo as odimo_qinfo
    from plinio.cost import diana_latency
    model, x = G2.build(prog, seed)
    kw = {}
    if not default_qinfo:
        # the configuration the property names: DIANA supports ternary ("2-bit") / 8-bit weights and 8-bit activations only
        kw['qinfo'] = odimo_qinfo(w_precision=(2, 8), a_precision=(8,))
    if as_dict:
        kw['cost'] = {'lat': diana_latency, 'lat2': diana_latency}
    return ODiMO_MPS(model, input_shape=G2.input_shape(prog), **kw), x


def _run_O(case, seed, res, add, cur):
    """ODiMO_MPS with its default cost (diana_latency) and reduction (odimo_mps_latency_reduction).
    mode 'soft': the configuration of the property (w in {2, 8}, a = 8) through the complete soft-mode oracle;
    mode 'default-qinfo': the constructor's own default qinfo - the cost must be evaluable as well."""
    prog = case['prog']
    mode = case.get('mode', 'default-qinfo')
    if mode == 'default-qinfo':
        cur[0] = {'default': True}
        res['states'] += 1
        res['evals'] += 1
        res['transitions'] += 1
        res['nontrivial'].append('O/' + str([s['op'] for s in prog['stages']]))
        try:
            nas, x = _odimo(prog, seed, default_qinfo=True)
            nas.train()
            nas(x)
            c = nas.cost
            v = float(c)
            if not (v == v and abs(v) != float('inf')) or v < 0:
                add('cost-not-finite-nonnegative', 'cost-not-finite-nonnegative/odimo', f'default ODiMO_MPS cost = {v}')
            g = torch.autograd.grad(c, [p for p in nas.nas_parameters() if p.requires_grad], allow_unused=True)
            if any(gg is not None and not torch.isfinite(gg).all() for gg in g):
                add('gradient-not-finite', 'gradient-not-finite/odimo', 'non-finite gradient of the default ODiMO_MPS cost')
        except Exception as e:
            # causal attribution: the same network with the precisions DIANA supports must be evaluable; then the only cause is the
            # constructor's default qinfo (2,4,8) x (2,4,8), which the default cost model rejects
            try:
                nas2, x2 = _odimo(prog, seed)
                nas2.train()
                nas2(x2)
                ok = bool(torch.isfinite(nas2.cost))
            except Exception:
                ok = False
            sig = 'cost-cannot-be-evaluated/odimo-default-qinfo-outside-diana-domain' if ok else 'cost-cannot-be-evaluated/odimo'
            add('cost-cannot-be-evaluated', sig,
                f'ODiMO_MPS(model, input_shape) with every default (qinfo (2,4,8) x (2,4,8), diana_latency, odimo_mps_latency_reduction): '
                f'{type(e).__name__}: {str(e)[:200]}' + (' - evaluable once qinfo is restricted to w in {2,8}, a = 8' if ok else ''))
        res['sample'] = {'fam': 'O', 'mode': mode, 'prog': prog}
        return
    as_dict = mode == 'soft-dict'
    nas, x = _odimo(prog, seed, as_dict=as_dict)
    sels = GM.selectors(nas)
    specs = {'lat': None, 'lat2': None} if as_dict else {None: None}

    def set_opts(T, hard):
        nas.update_softmax_options(temperature=T, hard=False, gumbel=False, disable_sampling=False)

    def twin():
        n2, _ = _odimo(prog, seed, as_dict=as_dict)
        return n2, [m.alpha for _, m in GM.selectors(n2)], \
            lambda T, hard: n2.update_softmax_options(temperature=T, hard=False, gumbel=False, disable_sampling=False)
    # ODiMO does not support hard sampling (its constructor says so): soft modes only
    _run_soft(case, seed, res, add, cur, nas, x, [m.alpha for _, m in sels], specs, 'odimo',
              [(1.0, False), (20.0, False), (0.05, False)], set_opts, twin, export_probe=True)
    res['sample'] = {'fam': 'O', 'mode': mode, 'prog': prog, 'selectors': [n for n, _ in sels]}


def run_case(case, seed):
    res = {'states': 0, 'transitions': 0, 'evals': 0, 'nontrivial': [], 'outcomes': set(), 'violations': []}
    cur = [None]
    base_case = {k: v for k, v in case.items() if k != 'only'}
    seen = set()

    def add(kind, sig, msg):
        res['outcomes'].add(kind)
        key = (sig, str(cur[0]))
        if key in seen:
            return
        seen.add(key)
        res['violations'].append({'kind': kind, 'sig': sig, 'msg': f'{case["fam"]} {_psig(case["prog"])}: {msg}', 'case': dict(base_case, only=cur[0])})

    {'P': _run_P, 'S': _run_S, 'M': _run_M, 'O': _run_O}[case['fam']](case, seed, res, add, cur)
    if not res['violations']:
        res['outcomes'].add('ok')
    res['outcomes'] = sorted(res['outcomes'])
    return res


def _psig(prog):
    return '+'.join(s['op'] + (f"[k{s.get('k', (s.get('a') or {}).get('k', 3))}]" if s['op'] in ('conv', 'twice') else '') for s in prog['stages'])
