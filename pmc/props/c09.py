"""C09 - every layer sees exactly the alive features of the tensor that reaches it.

Configuration-lattice explorer over the DAG part of G_pit (add, channel concat of 2..3 tensors of searchable /
fixed / input / depthwise origin, time concat, flatten & squeeze variants, depthwise chains, layers excluded
by name or by type) with the complete channel-mask lattice.  Oracle: a reference dataflow propagation of
channel aliveness written at the level of the program (pmc.grammar.pit.alive_ref, independent of plinio's
graph analysis) against (1) layer.input_features_calculator.features_mask / .features, (2) summary(),
(3) in_channels / in_features of the exported layers, (4) a forward pass of the exported network.
"""
import itertools

import torch
import torch.nn as nn

from .. import pitdrv as D
from ..grammar import pit as G

PID = 'C09'
RULE = ('programs: all G_pit stage sequences up to the depth bound x 3 heads x 1D/2D INCLUDING concat -> depthwise and cat + conv(cat), '
        'every channel-concat of 2..3 members drawn from {conv, 2-channel conv, identity/input, excluded conv, depthwise conv} at depth 1 and '
        'after a conv, a layer excluded by name at every position, head layers excluded by type, flatten/squeeze variants; configurations: '
        'complete channel-mask lattice when <= cap states else all masks within 2 pruned channels + the all-pruned corner; oracle: '
        'program-level reference propagation of alive channels vs input_features_calculator, summary(), exported sizes and a forward pass of the '
        'exported net; non-trivial = (program, mask assignment) with at least one pruned channel')
ASSUMPTIONS = ['receptive-field / dilation masks stay open (they do not change feature counts)',
               'the own binarised output mask of each layer (features_mask) is taken as the definition of its alive outputs',
               'known findings are matched by structural predicate + configuration predicate, see KNOWN_FINDINGS.txt']


def bounds(tier):
    return {'quick': {'G_depth': 2, 'complete_lattice_cap': 128, 'deviation_bound_beyond': 2},
            'thorough': {'G_depth': 3, 'complete_lattice_cap': 256, 'deviation_bound_beyond': 2}}[tier]


MEMBERS = ['conv', 'conv2', 'id', 'xconv', 'dwconv']


def cases(tier, seed):
    progs = list(G.gen_base(2 if tier == 'quick' else 3))
    # head variants
    for p in G.gen_base(1):
        for o in G.HEAD_OPTS[p['head']['kind']]:
            q = G._copy(p)
            q['head'].update(o)
            progs.append(q)
    # concat member combinations, at depth 1 and after a conv, followed by nothing / a conv / a depthwise conv
    for dim in (1, 2):
        for n in (2, 3):
            for mem in itertools.product(MEMBERS, repeat=n):
                if all(m == 'id' for m in mem):
                    continue
                for pre in ([], [{'op': 'conv'}]):
                    for post in ([], [{'op': 'conv'}], [{'op': 'pool', 'kind': 'max'}, {'op': 'conv'}]):
                        if tier == 'quick' and n == 3 and (post or dim == 2):
                            continue
                        for h in (G.HEADS if (tier == 'thorough' or n == 2) else G.HEADS[:1]):
                            progs.append({'dim': dim, 'cin': 3, 'size': G._size(dim),
                                          'stages': pre + [{'op': 'concat', 'members': list(mem)}] + post, 'head': dict(h)})
                            if n == 2 and len(post) <= 1 and h['kind'] == 'flatlin':
                                # the channel axis spelled with a negative index
                                progs.append({'dim': dim, 'cin': 3, 'size': G._size(dim),
                                              'stages': pre + [{'op': 'concat', 'members': list(mem), 'negc': True}] + post, 'head': dict(h)})
    # the time-axis concat spelled with a negative index
    for p in G.gen_base(2):
        for i, st in enumerate(p['stages']):
            if st['op'] == 'timecat':
                q = G._copy(p)
                q['stages'][i]['neg'] = True
                progs.append(q)
    # a layer excluded by name at every conv position of the depth<=2 base programs
    for p in G.gen_base(2):
        for i, s in enumerate(p['stages']):
            if s['op'] == 'conv' and not s.get('dw'):
                q = G._copy(p)
                q['stages'][i]['exclude'] = True
                progs.append(q)
    progs += G.gen_special()
    out = []
    for p in progs:
        out.append({'prog': p, 'tier': tier})
    # autoconvert off with user-placed searchable layers / mixed user-placed + auto-converted
    for v in ('plain', 'pool', 'mixed'):
        out.append({'hand': v, 'tier': tier})
    # head layers excluded by type
    for p in G.gen_base(1):
        if p['head']['kind'] != 'fcn':
            out.append({'prog': p, 'tier': tier, 'exclude_linear': True})
    return out


def _hand_case(case, seed):
    """autoconvert off / mixed: user-placed searchable layers (sequential, every consumer of a prunable tensor is searchable)"""
    import itertools as it
    from plinio.methods import PIT
    from plinio.methods.pit.nn import PITConv1d, PITLinear
    from plinio.methods.pit.nn.features_masker import PITFeaturesMasker, PITFrozenFeaturesMasker
    from plinio.methods.pit.nn.timestep_masker import PITTimestepMasker
    from plinio.methods.pit.nn.dilation_masker import PITDilationMasker
    res = {'states': 0, 'transitions': 0, 'evals': 0, 'nontrivial': [], 'outcomes': set(), 'violations': []}
    variant = case['hand']
    torch.manual_seed(seed * 31 + 3)
    L = 6

    def pc(cin, cout, k):
        return PITConv1d(nn.Conv1d(cin, cout, k), PITFeaturesMasker(cout), PITTimestepMasker(k), PITDilationMasker(k))

    class M(nn.Module):
        def __init__(self):
            super().__init__()
            self.pad0 = nn.ConstantPad1d((2, 0), 0.0)
            self.c0 = pc(3, 4, 3)
            self.mid = nn.MaxPool1d(2) if variant == 'pool' else nn.Dropout(0.1)
            self.pad1 = nn.ConstantPad1d((1, 0), 0.0)
            self.c1 = pc(4, 3, 2) if variant != 'mixed' else nn.Conv1d(4, 3, 2)
            self.fc = PITLinear(nn.Linear(3 * (L // 2 if variant == 'pool' else L), 2), PITFrozenFeaturesMasker(2)) if variant != 'mixed' \
                else nn.Linear(3 * L, 2)

        def forward(self, x):
            y = torch.relu(self.c0(self.pad0(x)))
            y = self.mid(y)
            y = torch.relu(self.c1(self.pad1(y)))
            return self.fc(torch.flatten(y, 1))
    model = M().eval()
    x = torch.randn(3, 3, L)
    with torch.no_grad():
        y0 = model(x)
    only = case.get('cfg')

    def add(kind, msg, desc):
        res['outcomes'].add(kind)
        res['violations'].append({'kind': kind, 'sig': f'{kind}/user-placed-{variant}', 'msg': f'user-placed ({variant}) cfg={desc}: {msg}',
                                  'case': dict({k: v for k, v in case.items() if k != 'cfg'}, cfg=desc)})
    try:
        pit = PIT(model, input_shape=(3, L), autoconvert_layers=(variant == 'mixed'), discrete_cost=True)
    except Exception as e:
        res.update(states=1, evals=1)
        add('conversion-raises', f'{type(e).__name__}: {str(e)[:200]}', {})
        res['outcomes'] = sorted(res['outcomes'])
        return res
    pit.eval()
    c0, c1, fc = pit.seed.c0, pit.seed.c1, pit.seed.fc
    mult = fc.in_features // 3
    for m0 in it.product([1, 0], repeat=3):
        for m1 in it.product([1, 0], repeat=2):
            desc = {'c0': list(m0), 'c1': list(m1)}
            if only is not None and only != desc:
                continue
            with torch.no_grad():
                c0.out_features_masker.alpha.copy_(torch.tensor(list(m0) + [1.0]))
                if type(c1.out_features_masker) is PITFeaturesMasker:
                    c1.out_features_masker.alpha.copy_(torch.tensor(list(m1) + [1.0]))
            res['states'] += 1
            res['transitions'] += (3 - sum(m0)) + (2 - sum(m1))
            res['evals'] += 1
            own0 = [bool(b) for b in c0.features_mask.tolist()]
            own1 = [bool(b) for b in c1.features_mask.tolist()]
            want = {'c1': own0, 'fc': [b for b in own1 for _ in range(mult)]}
            for name, layer in (('c1', c1), ('fc', fc)):
                calc = layer.input_features_calculator
                got = [bool(v) for v in calc.features_mask.tolist()]
                if got != want[name] or abs(float(calc.features) - sum(want[name])) > 1e-4 or layer.summary()['in_features'] != sum(want[name]):
                    add('calculator-mask', f'{name}: calculator mask {got} count {float(calc.features)} summary {layer.summary()["in_features"]}, '
                                           f'alive features reaching it {want[name]}', desc)
            try:
                with torch.no_grad():
                    exp = pit.export()
                    exp.eval()
                    y = exp(x)
                if tuple(y.shape) != tuple(y0.shape):
                    add('output-shape-changed', f'{tuple(y.shape)} vs {tuple(y0.shape)}', desc)
                if exp.c1.in_channels != sum(own0) or exp.fc.in_features != sum(want['fc']):
                    add('exported-in-features', f'exported c1.in_channels={exp.c1.in_channels}, fc.in_features={exp.fc.in_features}; alive {sum(own0)}, {sum(want["fc"])}', desc)
                else:
                    res['outcomes'].add('consistent')
            except Exception as e:
                add('exported-net-does-not-run', f'{type(e).__name__}: {str(e)[:200]}', desc)
            if sum(m0) < 3 or sum(m1) < 2:
                res['nontrivial'].append(f'hand/{variant}/{m0}/{m1}')
    res['outcomes'] = sorted(res['outcomes'])
    res['sample'] = {'hand': variant, 'masks': 'complete 2^3 x 2^2 lattice'}
    return res


def _excluded_consumes_pruned(prog, exp_in, excluded):
    return any(not all(exp_in.get(n, [True])) for n in excluded)


def run_case(case, seed):
    if case.get('hand'):
        return _hand_case(case, seed)
    prog = case['prog']
    tier = case.get('tier', 'quick')
    b = bounds(tier)
    res = {'states': 0, 'transitions': 0, 'evals': 0, 'nontrivial': [], 'outcomes': set(), 'violations': []}
    base_case = {k: v for k, v in case.items() if k != 'cfg'}
    flags = G.structure_flags(prog)
    kw = {'discrete_cost': True}
    excluded = set(G.excluded_names(prog))
    if case.get('exclude_linear'):
        kw['exclude_types'] = (nn.Linear,)
        excluded |= {n for n in G.layer_names(prog) if n.startswith('head.fc')}
        flags = flags | {'excluded-layer'}
    ctx = D.make_pit(prog, seed, **kw)
    ssig = _shape_sig(prog)

    def add(kind, sig, msg, desc):
        res['outcomes'].add(kind)
        res['violations'].append({'kind': kind, 'sig': sig, 'msg': msg, 'case': dict(base_case, cfg=desc)})

    if 'error' in ctx:
        res.update(states=1, evals=1)
        sig = 'cat->dwconv' if 'cat->dwconv' in flags else 'conversion-raises/' + ssig
        add('conversion-raises', sig, f'PIT() raised {type(ctx["error"]).__name__}: {str(ctx["error"])[:200]}', {})
        res['outcomes'] = sorted(res['outcomes'])
        return res
    pit, x, y0, model = ctx['pit'], ctx['x'], ctx['y0'], ctx['model']
    # on a (deterministic) third of the programs everything below is done on a deep COPY of the converted model (a snapshot / EMA copy):
    # the copy must be self-contained - the original, kept alive and left untouched with all masks open, must not be what it reads
    import copy
    import hashlib
    import json
    if int(hashlib.sha1(json.dumps(prog, sort_keys=True).encode()).hexdigest(), 16) % 3 == 1:
        original = pit
        pit = copy.deepcopy(pit)
        ctx['original_kept_alive'] = original
    pit.eval()
    mult = D.flat_mult(model, prog)
    els = D.elements(pit, prog, time_moves=False)
    if case.get('cfg') is not None:
        cfgs, complete = [D.cfg_from_desc(els, case['cfg'])], False
    else:
        cfgs, complete = D.enum_configs(els, b['deviation_bound_beyond'], b['complete_lattice_cap'])
    names = G.layer_names(prog)
    for cfg in cfgs:
        D.apply_config(els, cfg, rep=0, via_data=res['states'] % 2 == 1)
        res['states'] += 1
        res['transitions'] += len(cfg)
        res['evals'] += 1
        desc = D.describe(els, cfg)
        try:
            own = D.own_masks(pit, prog)
        except Exception as e:
            kind = 'layer-unusable-after-conversion'
            add(kind, 'cat->dwconv' if 'cat->dwconv' in flags else f'{kind}/{ssig}',
                f'cfg={desc}: reading features_mask raised {type(e).__name__}: {str(e)[:150]}', desc)
            break
        exp_in, issues = G.alive_ref(prog, own, mult)
        d5 = 'excluded-layer' in flags and _excluded_consumes_pruned(prog, exp_in, excluded)
        d5b = 'excluded-output-tied' in flags and bool(issues)
        d24 = 'cat+conv(cat)' in flags and any(k == 'sum-sides-differ' for _, k, _, _ in issues)

        same2 = 'cat-same-tensor-twice' in flags
        # D4 also when the depthwise layer does get a masker from a LATER defining layer of its component (cat -> dw -> + conv): that
        # masker is unrelated to the concatenated producers, so the depthwise mask differs from the alive channels reaching it
        d4 = 'cat->dwconv' in flags and bool(issues)

        def sig_for(kind, layer=None):
            # a violation is attributed to a listed finding only when the structural predicate of the program AND the
            # configuration predicate hold (DESIGN.md section 1, "Known findings")
            if d5:
                return 'excluded-layer-consumes-pruned-tensor'
            if d5b:
                return 'excluded-layer-output-tied-to-pruned-layer'
            if d24:
                return 'cat+conv(cat)-masks-not-tied'
            if d4:
                return 'cat->dwconv'
            if same2:
                return 'same-tensor-concatenated-twice'
            return f'{kind}/{ssig}'

        for st, kind, a, bb in issues:
            add(kind, sig_for(kind), f'cfg={desc}: stage {st}: the two operands have alive masks {a} and {bb}', desc)
        for name in names:
            layer = pit.seed.get_submodule(name)
            want = exp_in[name]
            nwant = sum(want)
            calc = getattr(layer, 'input_features_calculator', None)
            if calc is not None:
                try:
                    got = [bool(v) for v in calc.features_mask.tolist()]
                    gotn = float(calc.features)
                except Exception as e:
                    add('calculator-raises', sig_for('calculator-raises', name), f'cfg={desc}: {name}: {type(e).__name__}: {str(e)[:150]}', desc)
                    continue
                if got != want:
                    add('calculator-mask', sig_for('calculator-mask', name),
                        f'cfg={desc}: {name}: input_features_calculator.features_mask={got}, alive channels reaching it={want}', desc)
                if abs(gotn - nwant) > 1e-4:
                    add('calculator-count', sig_for('calculator-count', name),
                        f'cfg={desc}: {name}: input_features_calculator.features={gotn}, alive channels reaching it={nwant}', desc)
                s = layer.summary()
                if s['in_features'] != nwant:
                    add('summary-in-features', sig_for('summary-in-features', name),
                        f'cfg={desc}: {name}: summary in_features={s["in_features"]}, alive={nwant}', desc)
        try:
            with torch.no_grad():
                exp = pit.export()
                exp.eval()
        except Exception as e:
            add('export-raises', sig_for('export-raises'), f'cfg={desc}: {type(e).__name__}: {str(e)[:200]}', desc)
            continue
        for name in names:
            e = exp.get_submodule(name)
            got = e.in_channels if hasattr(e, 'in_channels') else e.in_features
            if got != sum(exp_in[name]):
                add('exported-in-features', sig_for('exported-in-features', name),
                    f'cfg={desc}: exported {name} has {got} input features, alive channels reaching it={sum(exp_in[name])}', desc)
        try:
            with torch.no_grad():
                y = exp(x)
            if tuple(y.shape) != tuple(y0.shape):
                add('output-shape-changed', sig_for('output-shape-changed'), f'cfg={desc}: {tuple(y.shape)} vs {tuple(y0.shape)}', desc)
            else:
                res['outcomes'].add('consistent')
        except Exception as e:
            add('exported-net-does-not-run', sig_for('exported-net-does-not-run'), f'cfg={desc}: {type(e).__name__}: {str(e)[:200]}', desc)
        if cfg:
            res['nontrivial'].append(_key(prog, case.get('exclude_linear', False), desc))
    res['outcomes'] = sorted(res['outcomes'])
    res['sample'] = {'prog': prog, 'flags': sorted(flags), 'n_configs': len(cfgs), 'complete_lattice': complete,
                     'last_cfg': D.describe(els, cfgs[-1]) if cfgs else None}
    return res


def _key(prog, xl, desc):
    import hashlib
    import json
    return hashlib.sha1(json.dumps([prog, xl, desc], sort_keys=True).encode()).hexdigest()[:16]


def _shape_sig(prog):
    ops = '+'.join(sorted({s['op'] + ('-dw' if s.get('dw') else '') + ('-x' if s.get('exclude') else '') +
                           ('[' + ','.join(s['members']) + ']' if s['op'] == 'concat' else '') for s in prog['stages']}))
    return f"{prog['dim']}d/{ops}/{prog['head']['kind']}"
