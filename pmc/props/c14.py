"""C14 - Integer (MATCH / MAUPITI) layers reproduce their fake-quantized counterparts.

Configuration-lattice explorer: programs (sequential / depthwise-separable sub-grammar of G_mps + a few hand-built networks with
dilation on one spatial axis, tuple / 'valid' padding, bias-free linear layers and a fully-convolutional tail) x weight bits x
activation bits (single-precision MPS, so export() is deterministic; a small family with activation precisions alternating
along the network) x back-end option (MATCH default / two smaller scale_bit, shift_pos settings, MAUPITI) x clip calibration
(every PACT clip value set to 1.0 / 0.6 of the activation range it observes on the witness batch, so that the integer
activations use their range and top-of-range clipping happens) x protocol (warm: the model handed to integerize_arch has just run on the
witness batch with its final clip values; cold-write / cold-load: a freshly re-built and exported twin receives the calibrated clip values by
a direct write / by load_state_dict(strict=True) of the calibrated model's state_dict and is handed to integerize_arch straight away, before
any inference; the fake-quantized reference is evaluated afterwards on a separate deep copy of the calibrated model).

Oracle `intbackend_ref` (this module): the integer network produced by integerize_arch is run once on the witness batch with
forward hooks on every integer Conv2d / Linear; every such layer is one step of the integer trace.  For each step the
fake-quantized counterpart (same name in an untouched deep copy of MPS.export()) is fed the REAL image of the integer input
(u x real step of the producer's quantizer, u = integer + zero-point offset of the back-end) and the integer image of its output is
compared with the integer layer's output, element by element, against

    1 + ceil( |acc+b| x |scale/2^shift - s_w s_x/s_y|  +  T x (|acc| x |e_y - e_x| + |b| x e_y)/(1+e_y) )      levels

(acc, b recomputed here in float64 from the integer image of the fake-quantized weights / bias; scale, shift are the integer layer's own
attributes; e = 1e-3/clip is the relative share of the PACT stabiliser that PACTAct.scale omits).  Final layer: MATCH output x
(s_x s_w) / MAUPITI output vs. the real-valued output of the counterpart.  All stored tensors (weights, scaled bias, scale, shift) and
all activations produced by integer layers must be integral and inside the range the back-end declares.
When integerize_arch or the forward of the integer network raises, the failing layer(s) are located by building every integer layer
separately through backend_factory, the violation is signed by the structural feature of the failing layer, and the remaining layers are
still checked (fed the integer image of the input their counterpart receives in the fake-quantized network).
"""
import copy
import hashlib
import json

import torch
import torch.nn as nn
import torch.nn.functional as Fn

from ..grammar import mps as GM
from ..grammar import net2d as G2
from .c10 import _reps

PID = 'C14'
RULE = ('programs: sequential / depthwise-separable programs of G_mps (conv, conv-BN, depthwise, pooling, heads flatten-linear / GAP-linear / two linears) '
        'up to the depth bound with single-option deviations {bias off, BN with bias off, 1x1, stride 2, padding 0 / tuple / "valid", no activation} + hand-built '
        'networks (dilation on axis 0 or 1 with a 1-wide kernel on the other axis, with / without padding, depthwise with dilation, bias-free linear layers, '
        'fully-convolutional tail); weight bits x activation bits: complete {2,4,8}^2 on the core programs, 3 pairs beyond; alternating activation precisions '
        '(lo,hi) on a sub-family; back-end options: MATCH (scale_bit, shift_pos) in {(24,24) default, (16,24), (12,12)} and MAUPITI; calibration of every PACT '
        'clip value to {1.0, 0.6} x observed range; every integer Conv2d / Linear of every configuration is compared with its fake-quantized counterpart on '
        'the activations produced by the integer network itself; protocols: warm (integerize_arch receives a deep copy of the calibrated model, which has run on '
        'the witness batch) on every configuration + integerized-cold (a freshly built and exported twin of the same network gets the calibrated clip values '
        'without a forward pass - cold-write: clip_val.data.fill_, cold-load: load_state_dict(strict=True) of the calibrated state_dict - and is handed to '
        'integerize_arch straight away; the reference is evaluated afterwards on a separate deep copy) on every configuration in the thorough tier and '
        'rotated over every third (program, bits, calibration) with a rotating back-end option in the quick tier; a cold violation is signed '
        '<sig>/integerized-cold(<spelling>) unless the warm protocol shows the identical signature on the same configuration; '
        'non-trivial = a configuration (protocol included in its key) in which at least one integer layer\'s outputs span more than '
        'half of the range of its output precision')
ASSUMPTIONS = ['"random in-range inputs" are decided on a seeded witness batch in [0,1) (3 random samples + 1 binarised sample); the seed only picks weights and witness inputs',
               'PACT clip values are calibrated on the witness batch (any positive clip value is reachable by training); default clip values leave the integer range almost unused',
               'the real image of an integer activation is integer x the REAL step of the PACT quantizer ((clip+1e-3)/(2^p-1)); the share of the 1e-3 stabiliser omitted by '
               'PACTAct.scale (D22) is added to the bound, not reported',
               'MAUPITI activations are offset-signed: integer + 2^(p-1) is the unsigned level, p the precision of the quantizer that produced the activation',
               'range of the scaled bias is checked on add_bias (bias x scale); the MAUPITI zero point (bias + offset terms) is not range-checked',
               'final-layer tolerance: own scale approximation + stabiliser share + 1e-3 relative + 2 units of s_x s_w',
               'integerized-cold protocols: the twin is the same fake-quantized network as the calibrated model iff their state_dicts are equal (checked, keys and tensors); '
               'whatever else a quantizer caches between forward passes is not part of the network and must not influence integerize_arch',
               'grammar programs in which a BatchNorm would see a 1x1 map are excluded: MPS() itself cannot convert them (BN in training mode on a single value)',
               'signatures: a violation is signed kind / back-end / structural features of the layer (dilated axis, depthwise, asymmetric or "valid" padding, no bias, in != out '
               'precision, final layer); "no-bias" alone is used only for UnboundLocalError(int_bias) on a layer whose bias is None; "asymmetric-padding" alone only when the observed '
               'shape is exactly the one obtained by padding all four sides with padding[0]']

MATCH_OPTS = [('match', 24, 24), ('match', 16, 24), ('match', 12, 12)]
BACKENDS = MATCH_OPTS + [('maupiti', None, None)]
CALIBS = [1.0, 0.6]
BITS = (2, 4, 8)


def bounds(tier):
    return {'quick': {'G_mps_sequential_depth': 'none beyond the core list (1-3 stages)', 'core_programs': len(_core_programs()), 'hand_programs': len(_hand_programs()),
                      'bits': 'complete {2,4,8}^2 on core and hand programs', 'mixed_activation_programs': len(_mixed_programs('quick')),
                      'mixed_activation_patterns': '(lo,hi) in {(2,8),(4,8),(2,4)} alternating from lo / from hi, w=4', 'backend_options': len(BACKENDS),
                      'calibrations': CALIBS, 'weight_draws': 1, 'witness_batch': 4,
                      'protocols': 'warm everywhere + integerized-cold (cold-write / cold-load) on every third (case, calibration) pair, one rotating back-end option'},
            'thorough': {'G_mps_sequential_depth': 3, 'core_programs': len(_core_programs()), 'hand_programs': len(_hand_programs()),
                         'bits': 'complete {2,4,8}^2 on core, hand and all sequential G_mps programs of depth <= 2 (+ option deviations), 3 pairs on depth-3 programs',
                         'mixed_activation_programs': len(_mixed_programs('thorough')),
                         'mixed_activation_patterns': '(lo,hi) in {(2,8),(4,8),(2,4)} alternating from lo / from hi, w in {2,4,8}', 'backend_options': len(BACKENDS),
                         'calibrations': CALIBS, 'weight_draws': '2 on core and hand programs, 1 elsewhere', 'witness_batch': 4,
                         'protocols': 'warm + integerized-cold (cold-write / cold-load alternating) on every configuration'}}[tier]


# ----------------------------------------------------------------------------------------------
# programs
# ----------------------------------------------------------------------------------------------
def _P(stages, head, **kw):
    return dict({'cin': 3, 'size': 6, 'stages': stages, 'head': head}, **kw)


def _core_programs():
    c = {'op': 'conv', 'cout': 3}
    return [
        _P([dict(c)], 'flatlin'),
        _P([dict(c)], 'gaplin'),
        _P([dict(c)], 'linlin'),
        _P([dict(c, bias=False)], 'flatlin'),
        _P([dict(c, bn=True)], 'flatlin'),
        _P([dict(c, bn=True, bias=False)], 'gaplin'),
        _P([dict(c, s=2)], 'flatlin'),
        _P([dict(c, p=0)], 'flatlin'),
        _P([dict(c, k=1)], 'gaplin'),
        _P([dict(c), dict(c, cout=4)], 'flatlin'),
        _P([dict(c), {'op': 'conv', 'dw': True}, {'op': 'conv', 'cout': 2, 'k': 1}], 'flatlin'),
        _P([dict(c, bn=True), {'op': 'conv', 'dw': True, 'bn': True}, {'op': 'conv', 'cout': 4, 'k': 1, 'bn': True}], 'gaplin'),
        _P([dict(c), {'op': 'pool'}], 'linlin'),
        _P([dict(c), {'op': 'pool', 'kind': 'avg'}], 'flatlin'),
        _P([dict(c, act=False), dict(c)], 'gaplin'),
        _P([dict(c), dict(c, bias=False)], 'gaplin'),
        _P([dict(c, s=2, p=0, bn=True), {'op': 'conv', 'dw': True, 's': 2}], 'linlin'),
        # a Dropout between integer layers (mode-dependent module shared with the fake-quantized network)
        _P([dict(c), {'op': 'dropout'}, dict(c)], 'flatlin'),
        _P([dict(c, bn=True), {'op': 'pool'}, {'op': 'dropout'}], 'linlin'),
        # padding modes other than zeros
        _P([dict(c, pm='reflect')], 'flatlin'),
        _P([dict(c, pm='circular'), {'op': 'conv', 'dw': True, 'pm': 'replicate'}], 'gaplin'),
        # the activation separated from its layer by a pass-through op: conv [-> BN] -> pool -> ReLU
        _P([dict(c, act=False), {'op': 'pool'}, {'op': 'relu'}, dict(c)], 'flatlin'),
        _P([dict(c, act=False, bn=True), {'op': 'pool'}, {'op': 'relu'}], 'linlin'),
        _P([dict(c, act=False, bn=True), {'op': 'pool', 'kind': 'avg'}, {'op': 'relu'}, {'op': 'conv', 'dw': True}], 'gaplin'),
    ]


def _hand_programs():
    """networks outside net2d's conv stage (dilation, tuple / 'valid' padding, bias-free linears, fully-convolutional tail); built by _build_hand"""
    c = {'op': 'conv', 'cout': 3}
    return [
        _P([dict(c, k=[3, 1], p=[1, 0])], 'flatlin', hand=True),
        _P([dict(c, k=[1, 3], p=[0, 1])], 'flatlin', hand=True),
        _P([dict(c, p='valid')], 'flatlin', hand=True),
        _P([dict(c, k=[3, 1], d=[2, 1], p=[2, 0])], 'flatlin', hand=True),
        _P([dict(c, k=[3, 1], d=[2, 1], p=0)], 'flatlin', hand=True),
        _P([dict(c, k=[1, 3], d=[1, 2], p=0)], 'gaplin', hand=True),
        _P([dict(c), {'op': 'conv', 'dw': True, 'k': [3, 1], 'd': [2, 1], 'p': 0}], 'gaplin', hand=True),
        _P([dict(c, k=[3, 1], d=[2, 1], p=0, bn=True), dict(c, k=[1, 3], d=[1, 2], p=0, bn=True)], 'gaplin', hand=True),
        _P([dict(c)], 'linlin', hand=True, fc1_bias=False),
        _P([dict(c)], 'flatlin', hand=True, fc_bias=False),
        _P([dict(c)], 'conv', hand=True),
        _P([dict(c, bn=True), {'op': 'pool'}], 'conv', hand=True),
    ]


def _sequential(p):
    return all(s['op'] in ('conv', 'pool', 'relu', 'dropout') for s in p['stages'])


def _bn_on_single_pixel(p):
    """MPS() itself cannot convert a network whose BatchNorm sees a 1x1 map (its shape propagation runs BN in training mode on a batch of one):
    such programs are outside the domain of C14 (nothing to integerize)"""
    size = p['size']
    for s in p['stages']:
        if s['op'] == 'pool':
            size //= 2
        elif s['op'] in ('relu', 'dropout'):
            continue
        else:
            k = s.get('k', 3)
            pad = s.get('p', k // 2)
            pad = k // 2 if pad == 'same' else 0 if pad == 'valid' else pad
            size = (size + 2 * pad - k) // s.get('s', 1) + 1
            if s.get('bn') and size <= 1:
                return True
    return False


def _grammar_programs(depth):
    out = []
    for p in GM.gen(depth, with_opts=True):
        if not _sequential(p) or p.get('head_bn'):
            continue
        if all(s['op'] == 'pool' for s in p['stages']) or _bn_on_single_pixel(p):
            continue
        out.append(p)
    return out


def _mixed_programs(tier):
    c = {'op': 'conv', 'cout': 3}
    progs = [
        _P([dict(c)], 'flatlin'),
        _P([dict(c), dict(c, cout=4)], 'flatlin'),
        _P([dict(c, p=0), dict(c, p=0)], 'gaplin'),
        _P([dict(c), {'op': 'pool'}], 'linlin'),
    ]
    if tier == 'thorough':
        progs += [
            _P([dict(c, bn=True), {'op': 'conv', 'dw': True}, {'op': 'conv', 'cout': 2, 'k': 1}], 'flatlin'),
            _P([dict(c, k=1), dict(c, k=1)], 'linlin'),
            _P([dict(c, s=2), dict(c)], 'gaplin'),
            _P([dict(c), dict(c), dict(c)], 'flatlin'),
        ]
    return progs


def cases(tier, seed):
    out = []
    seen = set()

    def add(prog, a, w, **kw):
        k = json.dumps([prog, a, w, kw], sort_keys=True)
        if k in seen:
            return
        seen.add(k)
        # 'rot' only rotates the cold-integerization protocols over the configurations in the quick tier (see _cold_plan)
        out.append(dict({'prog': prog, 'a': list(a), 'w': list(w), 'tier': tier, 'rot': len(out) + len(out) // 3}, **kw))

    allbits = [(a, w) for a in BITS for w in BITS]
    for p in _core_programs() + _hand_programs():
        for a, w in allbits:
            add(p, [a], [w])
    for p in _mixed_programs(tier):
        for pair in ((2, 8), (4, 8), (2, 4)):
            for start in (0, 1):
                for w in ((4,) if tier == 'quick' else (2, 4, 8)):
                    add(p, list(pair), [w], start=start)
    if tier == 'thorough':
        for p in _grammar_programs(2):
            for a, w in allbits:
                add(p, [a], [w])
        for p in _grammar_programs(3):
            if len(p['stages']) < 3:
                continue
            for a, w in ((8, 8), (4, 2), (2, 4)):
                add(p, [a], [w])
        # a second draw of weights / witness inputs on the core and hand programs
        for p in _core_programs() + _hand_programs():
            for a, w in allbits:
                add(p, [a], [w], draw=1)
    return out


# ----------------------------------------------------------------------------------------------
# hand-built networks
# ----------------------------------------------------------------------------------------------
class HandNet(nn.Module):
    """same layout / names as grammar.net2d.Net2d (blocks.s<i>, head.fc) with the full Conv2d argument set"""

    def __init__(self, prog):
        super().__init__()
        self.prog = prog
        c = prog['cin']
        self.blocks = nn.ModuleDict()
        for i, st in enumerate(prog['stages']):
            if st['op'] == 'conv':
                dw = st.get('dw', False)
                co = c if dw else st.get('cout', 4)
                k = st.get('k', 3)
                k = tuple(k) if isinstance(k, list) else k
                p = st.get('p', k // 2 if isinstance(k, int) else tuple(x // 2 for x in k))
                p = tuple(p) if isinstance(p, list) else p
                d = st.get('d', 1)
                d = tuple(d) if isinstance(d, list) else d
                self.blocks[f's{i}'] = nn.Conv2d(c, co, k, stride=st.get('s', 1), padding=p, dilation=d, groups=c if dw else 1, bias=st.get('bias', True))
                if st.get('bn'):
                    self.blocks[f's{i}bn'] = nn.BatchNorm2d(co)
                if st.get('act', True):
                    self.blocks[f's{i}act'] = nn.ReLU()
                c = co
            elif st['op'] == 'pool':
                self.blocks[f's{i}'] = nn.MaxPool2d(2) if st.get('kind', 'max') == 'max' else nn.AvgPool2d(2)
            else:
                raise ValueError(st['op'])
        with torch.no_grad():
            probe = self._features(torch.zeros(1, prog['cin'], prog['size'], prog['size']))
        h = prog['head']
        out = prog.get('out', 3)
        self.head = nn.ModuleDict()
        if h == 'flatlin':
            self.head['fc'] = nn.Linear(int(probe[0].numel()), out, bias=prog.get('fc_bias', True))
        elif h == 'gaplin':
            self.head['gap'] = nn.AdaptiveAvgPool2d(1)
            self.head['fc'] = nn.Linear(c, out, bias=prog.get('fc_bias', True))
        elif h == 'linlin':
            self.head['fc1'] = nn.Linear(int(probe[0].numel()), 5, bias=prog.get('fc1_bias', True))
            self.head['relu'] = nn.ReLU()
            self.head['fc'] = nn.Linear(5, out, bias=prog.get('fc_bias', True))
        elif h == 'conv':
            # fully-convolutional tail (as the repository's own ToySequentialFullyConv2d models): the last layer is a Conv2d
            self.head['fc'] = nn.Conv2d(c, out, tuple(probe.shape[2:]), bias=prog.get('fc_bias', True))
        else:
            raise ValueError(h)

    def _features(self, x):
        for i, st in enumerate(self.prog['stages']):
            x = self.blocks[f's{i}'](x)
            if f's{i}bn' in self.blocks:
                x = self.blocks[f's{i}bn'](x)
            if f's{i}act' in self.blocks:
                x = self.blocks[f's{i}act'](x)
        return x

    def forward(self, x):
        x = self._features(x)
        h = self.prog['head']
        if h == 'flatlin':
            return self.head['fc'](torch.flatten(x, 1))
        if h == 'gaplin':
            return self.head['fc'](torch.flatten(self.head['gap'](x), 1))
        if h == 'conv':
            return self.head['fc'](x)
        return self.head['fc'](self.head['relu'](self.head['fc1'](torch.flatten(x, 1))))


def _build_hand(prog, seed):
    g = torch.Generator().manual_seed(2000003 * (seed + 1) + 29)
    torch.manual_seed(seed * 104729 + 7)
    m = HandNet(prog)
    with torch.no_grad():
        for n, p in m.named_parameters():
            p.copy_(torch.randn(p.shape, generator=g) * 0.4 + 0.03)
        for mod in m.modules():
            if isinstance(mod, nn.BatchNorm2d):
                mod.running_mean.copy_(torch.randn(mod.running_mean.shape, generator=g) * 0.3)
                mod.running_var.copy_(torch.rand(mod.running_var.shape, generator=g) + 0.5)
                mod.weight.copy_(torch.rand(mod.weight.shape, generator=g) + 0.5)
                mod.bias.copy_(torch.randn(mod.bias.shape, generator=g) * 0.3)
    m.eval()
    x = torch.rand((3, prog['cin'], prog['size'], prog['size']), generator=g)
    return m, x


def make_fq(prog, a, w, seed, start=None):
    """-> (fake-quantized exported model in eval mode, witness batch).  `start` selects alternating activation precisions."""
    from plinio.methods.mps import MPS, get_default_qinfo
    if prog.get('hand'):
        model, x = _build_hand(prog, seed)
    else:
        model, x = G2.build(prog, seed)
    x = torch.cat([x, torch.round(x[:1])], dim=0)
    qinfo = get_default_qinfo(w_precision=tuple(w), a_precision=tuple(a))
    nas = MPS(model, input_shape=(prog['cin'], prog['size'], prog['size']), qinfo=qinfo)
    nas.eval()
    if start is not None:
        # activation selectors in dataflow order (network input first), precisions alternating along the network
        from plinio.methods.mps.nn.qtz import MPSBaseQtz
        sels, seen = [], set()
        for name, m in nas.named_modules():
            for attr in ('in_mps_quantizer', 'out_mps_quantizer'):
                q = getattr(m, attr, None)
                if isinstance(q, MPSBaseQtz) and id(q) not in seen and q.alpha.dim() == 1 and q.alpha.shape[0] > 1:
                    seen.add(id(q))
                    sels.append(q)
        with torch.no_grad():
            for i, q in enumerate(sels):
                n = q.alpha.shape[0]
                q.alpha.copy_(_reps(n, (start + i) % n)[0])
    with torch.no_grad():
        nas(x)
        exp = nas.export()
    exp.eval()
    return exp, x


# ----------------------------------------------------------------------------------------------
# calibration (non-vacuity device)
# ----------------------------------------------------------------------------------------------
def calibrate(exp, x, frac):
    """one forward pass; every PACT quantizer gets clip = frac x (max of the first tensor it is shown), set before it quantizes that tensor"""
    from plinio.methods.mps.quant.quantizers import PACTAct
    done = set()
    hooks = []

    def pre(mod, inp):
        if id(mod) in done:
            return
        done.add(id(mod))
        mx = float(inp[0].detach().max())
        v = max(frac * mx, 0.05)
        with torch.no_grad():
            mod.clip_val.data.fill_(v)

    seen = set()
    for n, m in exp.named_modules():
        if isinstance(m, PACTAct) and id(m) not in seen:
            seen.add(id(m))
            hooks.append(m.register_forward_pre_hook(pre))
    with torch.no_grad():
        exp(x)
    for h in hooks:
        h.remove()
    return len(done)


# ----------------------------------------------------------------------------------------------
# protocol "integerized cold": the clip values reach the model WITHOUT a forward pass and integerize_arch is called straight away
# ----------------------------------------------------------------------------------------------
COLD = ('cold-write', 'cold-load')


def _cold_twin(prog, a, w, wseed, start, exp, spelling):
    """a second, freshly built and exported copy of the same fake-quantized network (same seed: same architecture and weights) that receives
    the calibrated clip values of `exp` without being run: 'cold-write' = the calibration results are written into the PACT quantizers
    (clip_val.data.fill_), 'cold-load' = load_state_dict(exp.state_dict(), strict=True) (the deployment script: re-build the architecture,
    load the fine-tuned checkpoint, integerize).  -> (twin, None | description of a state_dict difference)"""
    from plinio.methods.mps.quant.quantizers import PACTAct
    twin, _ = make_fq(prog, a, w, wseed, start)
    if spelling == 'cold-load':
        twin.load_state_dict(copy.deepcopy(exp.state_dict()), strict=True)
    else:
        src = dict(exp.named_modules())
        for n, m in twin.named_modules():
            if isinstance(m, PACTAct):
                m.clip_val.data.fill_(float(src[n].clip_val.data[0]))
    sa, sb = exp.state_dict(), twin.state_dict()
    diff = None
    if list(sa) != list(sb):
        diff = f'keys differ: {sorted(set(sa) ^ set(sb))[:4]}'
    else:
        bad = [k for k in sa if not torch.equal(sa[k], sb[k])]
        if bad:
            diff = f'tensors differ: {bad[:4]}'
    return twin, diff


def _cold_plan(case, ci, bi):
    """which cold spelling (or None) is explored IN ADDITION to the warm protocol for calibration index ci / back-end option index bi.
    thorough: every configuration, spellings alternating; quick: every third (case, calibration) pair, one back-end option, both rotating"""
    rot = case.get('rot')
    if rot is None:
        return None
    if case.get('tier') == 'thorough':
        return COLD[(rot + ci + bi) % 2]
    n = rot + ci
    if n % 3 != 0 or bi != (n // 3) % len(BACKENDS):
        return None
    return COLD[(n // 3 + n // 12) % 2]


# ----------------------------------------------------------------------------------------------
# reference (intbackend_ref)
# ----------------------------------------------------------------------------------------------
def _real_step(q):
    """real step of a PACT quantizer: its forward maps v to floor(clamp(v,0,clip) x (2^p-1)/(clip+1e-3)) / ((2^p-1)/(clip+1e-3))"""
    return (float(q.clip_val.data[0]) + 1e-3) / (2 ** int(q.precision) - 1)


def _stab(q):
    return 1e-3 / float(q.clip_val.data[0])


def _quant_layers(model):
    import plinio.methods.mps.quant.nn as qnn
    return [(n, m) for n, m in model.named_modules() if isinstance(m, (qnn.QuantConv2d, qnn.QuantLinear))]


def _is_final(F):
    from plinio.methods.mps.quant.quantizers import DummyQuantizer
    return type(F.out_quantizer) is DummyQuantizer


def _features(F):
    """structural features of a layer, used in signatures"""
    f = {'type': 'linear' if isinstance(F, nn.Linear) else 'conv', 'bias': F.bias is not None, 'final': _is_final(F)}
    if isinstance(F, nn.Conv2d):
        f['dw'] = F.groups > 1
        f['dil'] = None if tuple(F.dilation) == (1, 1) else ('both' if F.dilation[0] != 1 and F.dilation[1] != 1 else (0 if F.dilation[0] != 1 else 1))
        pad = F.padding
        f['pad'] = 'valid' if pad == 'valid' else ('asym' if (not isinstance(pad, str) and pad[0] != pad[1]) else 'sym')
        f['stride'] = tuple(F.stride)
    pin = int(F.in_quantizer.precision)
    f['p_in'] = pin
    f['p_out'] = None if f['final'] else int(F.out_quantizer.precision)
    return f


def _feat_sig(f):
    """the structural part of a signature: the features of the layer that are not 'plain'"""
    parts = []
    if f['type'] == 'conv':
        if f.get('dil') is not None:
            parts.append(f'dilation-on-axis-{f["dil"]}')
        if f.get('dw'):
            parts.append('depthwise')
        if f.get('pad') == 'asym':
            parts.append('asymmetric-padding')
        if f.get('pad') == 'valid':
            parts.append('valid-padding')
    if not f['bias']:
        parts.append('no-bias')
    if f['p_out'] is not None and f['p_in'] != f['p_out']:
        parts.append('in-precision-differs-from-out-precision')
    if f['final']:
        parts.append('final-' + f['type'])
    return '+'.join(parts) if parts else 'plain-' + f['type']


def _int_weights(F):
    """integer image of the fake-quantized weights / bias of F, in float64, and the scales the back-end is entitled to use"""
    with torch.no_grad():
        wq = F.w_quantizer(F.weight)
        s_w = F.w_quantizer.scale.detach().clone().double()
        s_x = float(F.in_quantizer.scale)
        shape = (-1,) + (1,) * (wq.dim() - 1)
        W = torch.round(wq.double() / s_w.view(shape))
        if F.bias is not None:
            bq = F.b_quantizer(F.bias, F.in_quantizer.scale, F.w_quantizer.scale)
            b = torch.round(bq.double() / (s_x * s_w))
        else:
            b = torch.zeros(W.shape[0], dtype=torch.float64)
    return W, b, s_w, s_x


def _acc(F, u, W):
    if isinstance(F, nn.Conv2d):
        if F.padding_mode != 'zeros' and not isinstance(F.padding, str):
            # the reference accumulator pads the way the ORIGINAL layer does (reflect / replicate / circular)
            pads = (F.padding[1], F.padding[1], F.padding[0], F.padding[0])
            return Fn.conv2d(Fn.pad(u, pads, mode=F.padding_mode), W, None, F.stride, 0, F.dilation, F.groups)
        return Fn.conv2d(u, W, None, F.stride, F.padding, F.dilation, F.groups)
    return Fn.linear(u, W, None)


def _chan(t, like):
    """per-channel vector -> broadcastable against a layer output"""
    return t.view(1, -1, *([1] * (like.dim() - 2)))


def _integral(t):
    t = t.detach().double()
    return bool(torch.isfinite(t).all()) and bool((t == torch.round(t)).all())


def check_stored(L, F, backend, opts, feat):
    """-> list of (kind, what, msg) for stored tensors outside their declared range"""
    bad = []
    wbits = int(F.w_quantizer.precision)
    w = L.weight.detach()
    if not _integral(w):
        bad.append(('not-integral', 'weight', 'stored weights are not integers'))
    elif float(w.min()) < -2 ** (wbits - 1) or float(w.max()) > 2 ** (wbits - 1) - 1:
        bad.append(('stored-out-of-range', 'weight', f'stored weights span [{float(w.min())}, {float(w.max())}] outside signed {wbits} bits'))
    sb = L.scale_bit if backend == 'match' else 16
    sp = L.shift_pos if backend == 'match' else 32
    sc = L.scale.detach()
    if not _integral(sc):
        bad.append(('not-integral', 'scale', 'scale is not integral'))
    elif float(sc.min()) >= 0 and float(sc.max()) == 2 ** (sb - 1):
        # exactly the (inclusive) upper end of the binary search: one more than the largest signed scale_bit-bit value
        _, _, s_w, s_x = _int_weights(F)
        tgt = s_w * s_x / (float(F.out_quantizer.scale) if not feat['final'] else 1.0)
        hit = sc.view(-1).double() == 2 ** (sb - 1)
        # a target >= 2^(scale_bit-1) cannot be represented with any shift >= 0: the search saturates silently (distinct signature)
        unrep = bool((tgt[hit] >= 2 ** (sb - 1)).any())
        bad.append(('stored-out-of-range', 'scale-equals-upper-bound/target-not-representable' if unrep else 'scale-equals-upper-bound',
                    f'scale={sc.view(-1).tolist()} shift={L.shift.view(-1).tolist()} for targets s_w s_x/s_y={tgt.tolist()}: a channel gets scale == 2^(scale_bit-1) = {2 ** (sb - 1)} '
                    f'(scale_bit={sb}), not below it' + (' (the target itself exceeds what scale_bit bits can represent; the search saturates silently)' if unrep else '')))
    elif float(sc.min()) < 0 or float(sc.max()) >= 2 ** (sb - 1):
        bad.append(('stored-out-of-range', 'scale', f'scale spans [{float(sc.min())}, {float(sc.max())}] but scale_bit={sb} declares values below {2 ** (sb - 1)}'))
    sh = L.shift.detach()
    if not _integral(sh):
        bad.append(('not-integral', 'shift', 'shift is not integral'))
    elif float(sh.min()) < 0 or float(sh.max()) >= sp:
        bad.append(('stored-out-of-range', 'shift', f'shift={sh.tolist()} outside [0, {sp})'))
    biases = []
    if F.bias is not None:
        ab = getattr(L, 'add_bias', None)
        if ab is not None:
            biases.append(('add_bias', ab.detach()))
        if isinstance(L, nn.Conv2d) and feat['final'] and L.bias is not None:
            biases.append(('bias', L.bias.detach()))
        if not biases:
            bad.append(('stored-bias-missing', 'bias', 'the counterpart has a bias but the integer layer stores neither add_bias nor bias'))
    for nm, t in biases:
        if not _integral(t):
            bad.append(('not-integral', nm, f'{nm} is not integral'))
        elif float(t.min()) < -2 ** 31 or float(t.max()) > 2 ** 31 - 1:
            bad.append(('stored-out-of-range', nm, f'{nm} spans [{float(t.min())}, {float(t.max())}] outside 32 bits'))
    return bad


def check_layer(L, F, X_int, Y_int, backend, feat):
    """one step of the integer trace replayed against the fake-quantized implementation.
    -> dict(kind=None|str, msg, maxdiff, maxbound, span_frac, n)"""
    maup = backend == 'maupiti'
    p_in = feat['p_in']
    off_in = 2 ** (p_in - 1) if maup else 0
    u = X_int.detach().double() + off_in
    step_in = _real_step(F.in_quantizer)
    x_real = (u * step_in).float()
    with torch.no_grad():
        y_fq = F(x_real)
    W, b, s_w, s_x = _int_weights(F)
    acc = _acc(F, u, W)
    bb = _chan(b, acc)
    ex = _stab(F.in_quantizer)
    Y = Y_int.detach().double()
    out = {'kind': None, 'msg': '', 'maxdiff': 0.0, 'maxbound': 0.0, 'span_frac': None, 'n': int(Y.numel()), 'tight': 0}
    if tuple(Y.shape) != tuple(y_fq.shape):
        out.update(kind='output-shape-differs', msg=f'integer layer returns shape {tuple(Y.shape)}, its fake-quantized counterpart {tuple(y_fq.shape)} on the same input')
        return out
    if not bool(torch.isfinite(Y).all()):
        out.update(kind='non-finite-output', msg='integer layer returns non-finite values')
        return out
    approx = L.scale.detach().double().view(-1) / (2.0 ** float(L.shift.detach().double().view(-1)[0]))
    if feat['final']:
        sxw = s_x * s_w
        if maup:
            got = Y
            own = (acc + bb).abs() * _chan((approx - sxw).abs(), acc)
        else:
            got = Y * _chan(sxw, acc)
            own = torch.zeros_like(acc)
        tol = own + _chan(sxw, acc) * acc.abs() * ex + 1e-3 * y_fq.double().abs() + 2.0 * _chan(sxw, acc)
        d = (got - y_fq.double()).abs()
        exc = d - tol
        out['maxdiff'] = float(d.max())
        out['maxbound'] = float(tol.max())
        if bool((exc > 0).any()):
            i = int(torch.argmax(exc))
            out.update(kind='final-output-differs',
                       msg=f'final layer: {"output" if maup else "output x (s_x s_w)"} = {float(got.flatten()[i]):.6g} but the fake-quantized counterpart returns '
                           f'{float(y_fq.double().flatten()[i]):.6g} on the real image of the same input (|diff| {float(d.flatten()[i]):.4g} > tolerance {float(tol.flatten()[i]):.4g}; '
                           f'{int((exc > 0).sum())}/{exc.numel()} elements)')
        return out
    p_out = feat['p_out']
    off_out = 2 ** (p_out - 1) if maup else 0
    step_out = _real_step(F.out_quantizer)
    s_y = float(F.out_quantizer.scale)
    ey = _stab(F.out_quantizer)
    Y_img = torch.round(y_fq.double() / step_out) - off_out
    T = s_w * s_x / s_y
    delta = (acc + bb).abs() * _chan((approx - T).abs(), acc) + _chan(T, acc) * (acc.abs() * abs(ey - ex) + bb.abs() * ey) / (1 + ey)
    bound = 1 + torch.ceil(delta)
    d = (Y - Y_img).abs()
    exc = d - bound
    out['maxdiff'] = float(d.max())
    out['maxbound'] = float(bound.max())
    out['tight'] = int((bound <= 2).sum())
    qmax = 2 ** p_out - 1
    out['span_frac'] = float(Y.max() - Y.min()) / qmax
    lo, hi = -off_out, qmax - off_out
    if not _integral(Y):
        out.update(kind='not-integral', msg='activations returned by the integer layer are not integers')
        return out
    if float(Y.min()) < lo or float(Y.max()) > hi:
        out.update(kind='activation-out-of-range', msg=f'activations span [{float(Y.min())}, {float(Y.max())}] outside the declared [{lo}, {hi}]')
        return out
    if bool((exc > 0).any()):
        i = int(torch.argmax(exc))
        out.update(kind='level-diff-exceeds-bound',
                   msg=f'integer output {float(Y.flatten()[i]):.0f} vs integer image {float(Y_img.flatten()[i]):.0f} of the fake-quantized output on the same input: '
                       f'{float(d.flatten()[i]):.0f} levels > bound {float(bound.flatten()[i]):.0f} (scale/2^shift={approx[:3].tolist()}.. vs s_w s_x/s_y={T[:3].tolist()}..; '
                       f'{int((exc > 0).sum())}/{exc.numel()} elements exceed; max diff {float(d.max()):.0f})')
    return out


def _padded_all_sides_with_first(F, X_int, Y_int):
    """does the integer layer's output have the shape of F's convolution with padding (p0, p0) instead of (p0, p1)?"""
    try:
        p0 = int(F.padding[0])
        k = [F.dilation[i] * (F.kernel_size[i] - 1) + 1 for i in (0, 1)]
        want = tuple((int(X_int.shape[2 + i]) + 2 * p0 - k[i]) // F.stride[i] + 1 for i in (0, 1))
        return tuple(Y_int.shape[2:]) == want
    except Exception:
        return False


def _backend_enum(backend):
    from plinio.methods.mps.quant.backends import Backend
    return Backend.MATCH if backend == 'match' else Backend.MAUPITI


def _kwargs(opt):
    backend, sb, sp = opt
    if backend != 'match' or (sb, sp) == (24, 24):
        return {}
    return {'scale_bit': sb, 'shift_pos': sp}


def _int_classes():
    import plinio.methods.mps.quant.backends.match.nn as mnn
    import plinio.methods.mps.quant.backends.maupiti.nn as pnn
    return (mnn.MATCHConv2d, mnn.MATCHLinear, pnn.MAUPITIConv2d, pnn.MAUPITILinear)


def _raise_sig(e, feat, backend, stage):
    """signature of an exception raised by an integer layer (construction or forward)"""
    if stage == 'construct' and (not feat['bias']) and isinstance(e, UnboundLocalError) and 'int_bias' in str(e):
        return 'integer-layer-raises/no-bias'
    return f'integer-layer-{"raises" if stage == "construct" else "forward-raises"}/{backend}/{type(e).__name__}/{_feat_sig(feat)}'


def _hook_io(model, names):
    rec = {}
    hooks = []
    mods = dict(model.named_modules())
    for n in names:
        hooks.append(mods[n].register_forward_hook(lambda mod, i, o, n=n: rec.__setitem__(n, (i[0].detach().clone(), o.detach().clone()))))
    return rec, hooks


def run_config(exp, x, opt, res, add, stats, cold=None):
    """one (calibrated fake-quantized model, back-end option) configuration.
    cold: None = protocol 'warm' (the model handed to integerize_arch is a deep copy of the calibrated model, which has run on the witness batch with
    its final clip values); otherwise the COLD twin built by _cold_twin (same architecture and state_dict, NOT run since its clip values were
    written): it is integerized straight away, before anything else is executed, and the fake-quantized reference is evaluated afterwards on
    a separate deep copy of the calibrated model."""
    from plinio.methods.mps.quant.backends import integerize_arch
    from plinio.methods.mps.quant.backends.base import backend_factory
    backend = opt[0]
    kw = _kwargs(opt)
    im_cold, arch_exc = None, None
    if cold is not None:
        victim = copy.deepcopy(cold)          # (a deep copy executes nothing: the twin stays cold)
        victim.train()
        try:
            with torch.no_grad():
                im_cold = integerize_arch(victim, _backend_enum(backend), kw)
        except Exception as e:
            arch_exc = e
    fq = copy.deepcopy(exp)
    fq.eval()
    fq_layers = _quant_layers(fq)
    names = [n for n, _ in fq_layers]
    fqm = dict(fq_layers)
    feats = {n: _features(m) for n, m in fq_layers}
    # activations of the fake-quantized network (fallback inputs + self-check of the real-step formula)
    rec_fq, hooks = _hook_io(fq, names)
    with torch.no_grad():
        logits = fq(x)
    for h in hooks:
        h.remove()
    for n in names:
        F = fqm[n]
        if not feats[n]['final']:
            g = rec_fq[n][1].double() / _real_step(F.out_quantizer)
            if float((g - torch.round(g)).abs().max()) > 1e-2:
                add('reference-self-check', 'reference-self-check/fq-output-not-on-grid', f'{n}: fake-quantized output / real step is not integral '
                    f'(max dev {float((g - torch.round(g)).abs().max()):.3g}); the reference step formula does not describe this quantizer')
    inq = None
    for n, m in fq.named_modules():
        if n.endswith('input_quantizer'):
            inq = m.out_quantizer
    # --- the integer network
    # the model handed to integerize_arch is in TRAINING mode (a fake-quantized model straight from QAT, nobody called .eval()), and
    # the integer network is used as returned: it must be a deterministic inference network whatever mode its input was in
    im = im_cold
    if cold is None:
        victim = copy.deepcopy(exp)
        victim.train()
        try:
            with torch.no_grad():
                im = integerize_arch(victim, _backend_enum(backend), kw)
        except Exception as e:
            arch_exc = e
    layers = {}
    inputs = {}
    outputs = {}
    own_trace = False
    if im is not None:
        imm = dict(im.named_modules())
        missing = [n for n in names if not isinstance(imm.get(n), _int_classes())]
        if missing:
            add('integer-layer-missing', f'integer-layer-missing/{backend}', f'layers {missing} of the fake-quantized model have no integer counterpart of the same name')
        layers = {n: imm[n] for n in names if n not in missing}
        rec_im, hooks = _hook_io(im, list(layers))
        if backend == 'maupiti':
            p0 = int(inq.precision)
            with torch.no_grad():
                xin = torch.round(inq(x).double() / _real_step(inq)).float() - 2 ** (p0 - 1)
        else:
            xin = x
        try:
            with torch.no_grad():
                im(xin)
            own_trace = True
        except Exception as e:
            # locate the layer: the first one (in order) that has no recorded output
            first = next((n for n in names if n in layers and n not in rec_im), None)
            culprit = None
            # the defect may sit in a producer that returned a wrong shape: blame the first recorded layer whose shape differs
            for n in names:
                if n in rec_im and tuple(rec_im[n][1].shape) != tuple(rec_fq[n][1].shape):
                    culprit = n
                    break
            if culprit is None:
                culprit = first
                f = feats.get(culprit, {'type': 'none', 'bias': True, 'final': False, 'p_in': 0, 'p_out': None})
                add('integer-forward-raises', _raise_sig(e, f, backend, 'forward'),
                    f'forward of the integer network raises {type(e).__name__}: {str(e)[:160]} (first layer without output: {culprit})')
            # else: reported below as output-shape-differs of the culprit; the exception is its consequence
        for h in hooks:
            h.remove()
        for n in layers:
            if n in rec_im:
                inputs[n], outputs[n] = rec_im[n]
        if backend == 'match' and names and names[0] in inputs:
            first_in = inputs[names[0]]
            p0 = int(inq.precision)
            res['evals'] += 1
            if not _integral(first_in) or float(first_in.min()) < 0 or float(first_in.max()) > 2 ** p0 - 1:
                add('activation-out-of-range', f'activation-out-of-range/{backend}/input-quantizer',
                    f'input quantizer of the integer network returns values in [{float(first_in.min())}, {float(first_in.max())}] (integral={_integral(first_in)}) for {p0} bits')
    else:
        # integerize_arch raised: build every integer layer separately to find the failing one(s)
        victim = copy.deepcopy(exp if cold is None else cold)
        vm = dict(_quant_layers(victim))
        be = _backend_enum(backend)
        failing = []
        for n in names:
            V = vm[n]
            try:
                with torch.no_grad():
                    cls = backend_factory(V, be)
                    layers[n] = cls(V, V.in_quantizer, V.out_quantizer, V.w_quantizer, V.b_quantizer, **kw)
            except NotImplementedError as e:
                # the back-end DECLARES the configuration unsupported (e.g. MAUPITI: "Same padding is not supported yet"): outside the property
                failing.append(n)
                res['outcomes'].add('info:back-end-declares-unsupported')
                res['evals'] += 1
            except Exception as e:
                failing.append(n)
                add('integer-layer-raises', _raise_sig(e, feats[n], backend, 'construct'),
                    f'{n} ({_feat_sig(feats[n])}): building the integer layer raises {type(e).__name__}: {str(e)[:160]}')
                res['evals'] += 1
        if not failing:
            add('integerize-arch-raises', f'integerize-arch-raises/{backend}/{type(arch_exc).__name__}',
                f'integerize_arch raises {type(arch_exc).__name__}: {str(arch_exc)[:200]} although every layer can be built separately')
    # --- per-layer replay
    nspan = 0
    ncmp = 0
    for n in names:
        if n not in layers:
            continue
        L, F, feat = layers[n], fqm[n], feats[n]
        res['evals'] += 1
        for kind, what, msg in check_stored(L, F, backend, opt, feat):
            if what in ('scale', 'shift') or what.startswith('scale-equals-upper-bound'):
                # scale / shift depend on the three step sizes and the back-end options only, not on the structure of the layer
                add(kind, f'{kind}/{what}' if what.startswith('scale-equals-upper-bound') else f'{kind}/{backend}/{what}', f'{n}: {msg}')
            else:
                add(kind, f'{kind}/{backend}/{what}/{_feat_sig(feat)}', f'{n}: {msg}')
        if n in inputs:
            X_int, Y_int = inputs[n], outputs[n]
        else:
            # integer image of the input the counterpart receives in the fake-quantized network
            p_in = feat['p_in']
            g = rec_fq[n][0].double() / _real_step(F.in_quantizer)
            r = torch.round(g)
            g = torch.where((g - r).abs() < 1e-2, r, g)
            X_int = (g - (2 ** (p_in - 1) if backend == 'maupiti' else 0)).float()
            try:
                with torch.no_grad():
                    Y_int = L(X_int)
            except Exception as e:
                add('integer-forward-raises', _raise_sig(e, feat, backend, 'forward'),
                    f'{n} ({_feat_sig(feat)}): forward of the integer layer raises {type(e).__name__}: {str(e)[:160]}')
                res['evals'] += 1
                continue
        r = check_layer(L, F, X_int, Y_int, backend, feat)
        res['transitions'] += 1
        res['evals'] += 1
        ncmp += 1
        stats['cmp'] += 1
        stats['elements'] += r['n']
        stats['tight'] += r['tight']
        stats['maxdiff'] = max(stats['maxdiff'], r['maxdiff'] if not feat['final'] else 0.0)
        if r['span_frac'] is not None:
            stats['layers'] += 1
            if r['span_frac'] > 0.5:
                nspan += 1
                stats['wide'] += 1
        if r['kind']:
            fs = _feat_sig(feat)
            if r['kind'] == 'output-shape-differs' and feat.get('pad') == 'asym' and _padded_all_sides_with_first(F, X_int, Y_int):
                # verified cause: the observed shape is exactly the one obtained by padding all four sides with padding[0]
                fs = 'asymmetric-padding'
            add(r['kind'], f'{r["kind"]}/{backend}/{fs}', f'{n} ({_feat_sig(feat)}): {r["msg"]}')
    # --- between the layers: what an integer layer receives must be the integer image of what its fake-quantized counterpart receives when
    # the PRODUCER's integer output is taken as given (pooling / flatten / activations in between must commute with the integer encoding;
    # an op that survives in the integer network but acts on offset-signed integers - e.g. a ReLU - breaks exactly this)
    if own_trace:
        maup = backend == 'maupiti'
        for prev, cur in zip(names, names[1:]):
            if prev not in outputs or cur not in inputs or feats[prev]['final']:
                continue
            Fp, Fc = fqm[prev], fqm[cur]
            p_out = feats[prev]['p_out']
            if p_out is None:
                continue
            real_out = ((outputs[prev].double() + (2 ** (p_out - 1) if maup else 0)) * _real_step(Fp.out_quantizer)).float()
            cap = {}
            h1 = Fp.register_forward_hook(lambda mod, i, o: real_out)
            h2 = Fc.register_forward_pre_hook(lambda mod, i: cap.__setitem__('x', i[0].detach().clone()))
            try:
                with torch.no_grad():
                    fq(x)
            except Exception:
                cap.pop('x', None)
            h1.remove()
            h2.remove()
            if 'x' not in cap:
                continue
            step_in = _real_step(Fc.in_quantizer)
            got = (inputs[cur].double() + (2 ** (feats[cur]['p_in'] - 1) if maup else 0)) * step_in
            res['evals'] += 1
            if tuple(got.shape) != tuple(cap['x'].shape):
                add('inter-layer-image-differs', f'inter-layer-image-differs/{backend}/shape',
                    f'{prev} -> {cur}: the integer layer receives shape {tuple(got.shape)}, its counterpart {tuple(cap["x"].shape)}')
                continue
            dev = float(((got - cap['x'].double()).abs() / step_in).max())
            if dev > 0.51:
                add('inter-layer-image-differs', f'inter-layer-image-differs/{backend}',
                    f'{prev} -> {cur}: the input of the integer layer is not the integer image of what the fake-quantized layer receives from the same '
                    f'producer output (max deviation {dev:.3g} levels of {feats[cur]["p_in"]} bits): an op between the two layers does not commute with '
                    f'the integer encoding')
    res['outcomes'].add('own-trace' if own_trace else 'layerwise-fallback')
    return nspan, ncmp


def _opt_label(opt):
    return opt[0] if opt[0] == 'maupiti' else f'match-{opt[1]}-{opt[2]}'


def run_case(case, seed):
    prog, a, w = case['prog'], case['a'], case['w']
    start = case.get('start')
    wseed = seed + 7919 * int(case.get('draw', 0))
    res = {'states': 0, 'transitions': 0, 'evals': 0, 'nontrivial': [], 'outcomes': set(), 'violations': []}
    base_case = {k: v for k, v in case.items() if k != 'only'}
    cur = [None]
    ssig = _shape_sig(prog)

    warm_sigs = set()

    def add(kind, sig, msg):
        res['outcomes'].add(kind)
        warm_sigs.add(sig)
        res['violations'].append({'kind': kind, 'sig': sig, 'msg': f'{ssig} a={a}{"" if start is None else f" alternating from {start}"} w={w} {cur[0]}: {msg}',
                                  'case': dict(base_case, only=cur[0])})

    stats = {'cmp': 0, 'layers': 0, 'wide': 0, 'elements': 0, 'tight': 0, 'maxdiff': 0.0}
    only = case.get('only')
    only_base = None if only is None else {k: v for k, v in only.items() if k != 'proto'}
    precs = None
    for frac in CALIBS:
        labels = [{'calib': frac, 'backend': _opt_label(o)} for o in BACKENDS]
        if only is not None and only_base not in labels:
            continue
        try:
            exp, x = make_fq(prog, a, w, wseed, start)
            calibrate(exp, x, frac)
        except Exception as e:
            # conversion / export by MPS is not the subject of C14 (C02 is), but a program of this module that cannot be converted is never dropped silently
            cur[0] = labels[0]
            add('mps-conversion-raises', f'mps-conversion-raises/{ssig}', f'MPS() / export() raised {type(e).__name__}: {str(e)[:200]} (program outside the domain of C14: fix the program list)')
            continue
        precs = {n: (f['p_in'], f['p_out']) for n, f in ((n, _features(m)) for n, m in _quant_layers(exp))}
        twins = {}
        for bi, (o, label) in enumerate(zip(BACKENDS, labels)):
            if only is not None and only_base != label:
                continue
            cur[0] = label
            res['states'] += 1
            warm_sigs.clear()
            nspan, ncmp = run_config(exp, x, o, res, add, stats)
            if nspan > 0:
                res['nontrivial'].append(_key(prog, a, w, start, case.get('draw', 0), label))
            res['outcomes'].add('checked')
            # --- the same configuration integerized COLD (protocol named in the label / signature)
            spelling = only.get('proto') if only is not None else _cold_plan(case, CALIBS.index(frac), bi)
            if spelling is None:
                continue
            wsigs = set(warm_sigs)
            cur[0] = dict(label, proto=spelling)
            if spelling not in twins:
                twins[spelling] = _cold_twin(prog, a, w, wseed, start, exp, spelling)
            twin, sd_diff = twins[spelling]
            res['states'] += 1
            if sd_diff:
                add('reference-self-check', f'reference-self-check/cold-twin-state-dict/{spelling}',
                    f'the state_dict of the cold twin differs from the calibrated model ({sd_diff}): the two are not the same fake-quantized network')
                continue

            def add_cold(kind, sig, msg):
                # a violation that the warm protocol shows with the identical signature on this very configuration has the same cause and is
                # reported there; anything else is specific to the cold protocol and is signed by it
                if sig in wsigs:
                    res['outcomes'].add('cold:same-violation-as-warm')
                    return
                add(kind, f'{sig}/integerized-cold({spelling})', f'[{spelling}: clip values reach the model without a forward pass, integerize_arch is called '
                    f'straight away; the warm protocol does not show this on the same configuration] {msg}')

            nspan, ncmp = run_config(exp, x, o, res, add_cold, stats, cold=twin)
            if nspan > 0:
                res['nontrivial'].append(_key(prog, a, w, start, case.get('draw', 0), cur[0]))
            res['outcomes'].add('checked:' + spelling)
    res['outcomes'] = sorted(res['outcomes'])
    res['sample'] = {'prog': prog, 'a': a, 'w': w, 'start': start, 'layer_precisions(in,out)': precs, 'configs': res['states'], 'layer_comparisons': stats['cmp'],
                     'elements_compared': stats['elements'], 'elements_with_bound_le_2_levels': stats['tight'],
                     'fraction_of_layers_spanning_more_than_half_range': (round(stats['wide'] / stats['layers'], 3) if stats['layers'] else None),
                     'max_level_diff_observed': stats['maxdiff']}
    return res


def _key(prog, a, w, start, draw, label):
    return hashlib.sha1(json.dumps([prog, a, w, start, draw, label], sort_keys=True).encode()).hexdigest()[:16]


def _shape_sig(prog):
    def one(s):
        t = s['op'] + ('-dw' if s.get('dw') else '') + ('-bn' if s.get('bn') else '')
        for k in ('k', 's', 'p', 'd'):
            if k in s:
                t += f'-{k}{s[k]}'.replace(' ', '')
        if s.get('bias') is False:
            t += '-nobias'
        if s.get('act') is False:
            t += '-noact'
        return t
    extra = ''.join(f'-{k}' for k in ('fc_bias', 'fc1_bias') if prog.get(k) is False)
    return '+'.join(one(s) for s in prog['stages']) + '/' + prog['head'] + extra
