"""C07 - importing a model is behaviour-preserving and leaves the user model intact.

Configuration-lattice explorer: G_pit programs (all base programs up to the depth bound + all single-option deviations: BN after
conv / linear, bias off, depthwise, strides, paddings, kernel sizes) x fold_bn off/on x model passed in train / eval mode, a
two-input network, autoconvert off with user-placed searchable layers, and the SuperNets of G_sn.  Oracle:
  (1) y0 = model.eval()(x) before conversion; PIT(model).eval()(x) == y0, SuperNet(model).eval()(x) == weighted sum (uniform) - for
      SuperNet compared with an independent evaluation of the original modules with uniform weights;
  (2) export() right away has the original layer types and hyper-parameters and, with BN statistics transferred as in C01, the
      same outputs;
  (3) every module of the PIT / MPS wrapper has .training == the mode the model was passed in;
  (4) PIT / SuperNet: the user's state_dict is bit-identical before/after and model.eval()(x) is unchanged.
"""
import copy

import torch
import torch.nn as nn

from .. import pitdrv as D
from .. import tol
from .. import fixtures as F
from ..grammar import pit as GP
from ..grammar import net2d as G2
from ..grammar import sn as GS
from ..grammar import mps as GM

PID = 'C07'
RULE = ('programs: G_pit base programs up to the depth bound + every single-option deviation, each with fold_bn off (and on when the program has a BN) and '
        'passed in train and in eval mode; a two-input network; a network with user-placed PIT layers converted with autoconvert_layers=False; G_sn programs '
        '(one per structural kind) for SuperNet; G_mps depth-1 programs for the MPS mode clause; non-trivial = every (program, fold_bn, mode) triple')
ASSUMPTIONS = ['"on every input" decided on a seeded witness batch', 'the user model\'s own root .training flag after conversion is not asserted (DESIGN.md section 5)',
               'MPS is exempt from the "user model intact" half (the statement names PIT and SuperNet)']


def bounds(tier):
    return {'quick': {'G_pit_depth': 2, 'option_deviations_on_depth': 1}, 'thorough': {'G_pit_depth': 3, 'option_deviations_on_depth': 2}}[tier]


class TwoIn(nn.Module):
    def __init__(self):
        super().__init__()
        self.c1 = nn.Conv1d(3, 4, 3, padding='same')
        self.c2 = nn.Conv1d(2, 4, 3, padding='same')
        self.bn = nn.BatchNorm1d(4)
        self.c3 = nn.Conv1d(4, 3, 3, padding='same')
        self.fc = nn.Linear(3 * 8, 2)

    def forward(self, a, b):
        y = torch.relu(self.c1(a) + self.bn(self.c2(b)))
        return self.fc(torch.flatten(torch.relu(self.c3(y)), 1))


class TwoInSharedBN(TwoIn):
    """ONE BatchNorm module applied after two DIFFERENT convolutions"""
    def forward(self, a, b):
        y = torch.relu(self.bn(self.c1(a)) + self.bn(self.c2(b)))
        return self.fc(torch.flatten(torch.relu(self.c3(y)), 1))


def cases(tier, seed):
    out = []
    progs = list(GP.gen_base(2 if tier == 'quick' else 3))
    for p in GP.gen_base(1 if tier == 'quick' else 2):
        progs += GP.option_deviations(p)
    progs += GP.gen_special()
    for p in progs:
        if GP.structure_flags(p) & {'cat->dwconv'}:
            continue
        for train in (False, True):
            out.append({'kind': 'pit', 'prog': p, 'fold_bn': False, 'train': train})
            if GP.has_bn(p):
                out.append({'kind': 'pit', 'prog': p, 'fold_bn': True, 'train': train})
    for train in (False, True):
        for fold in (False, True):
            out.append({'kind': 'pit-twoin', 'fold_bn': fold, 'train': train})
            out.append({'kind': 'pit-twoin', 'fold_bn': fold, 'train': train, 'shared_bn': True})
            if not fold:   # a user-placed layer built with fold_bn=False inside PIT(fold_bn=True) is a user inconsistency, not generated
                out.append({'kind': 'pit-userplaced', 'fold_bn': fold, 'train': train})
    sn = GS.gen('quick')
    for i, p in enumerate(sn):
        if tier == 'thorough' or i % 4 == 0 or i >= 165:
            for train in (False, True):
                out.append({'kind': 'sn', 'prog': p, 'train': train})
    for p in GM.gen(1 if tier == 'quick' else 2):
        for train in (False, True):
            out.append({'kind': 'mps-mode', 'prog': p, 'train': train})
    for c in out:
        c['tier'] = tier
    return out


def _hyper(m):
    keys = ('in_channels', 'out_channels', 'kernel_size', 'stride', 'padding', 'dilation', 'groups', 'in_features', 'out_features', 'num_features')
    return tuple((k, getattr(m, k)) for k in keys if hasattr(m, k)) + (('bias', getattr(m, 'bias', None) is not None),)


def _mode_check(nas, train, add):
    wrong = [n for n, m in nas.named_modules() if m.training != train]
    if wrong:
        add('mode-not-preserved', 'mode-not-preserved/' + ('train' if train else 'eval'),
            f'model passed in {"train" if train else "eval"} mode but {len(wrong)} modules of the wrapper are in the other mode, e.g. {wrong[:3]}')


def _run_pit(case, seed, res, add):
    from plinio.methods import PIT
    kind = case['kind']
    fold, train = case['fold_bn'], case['train']
    if kind == 'pit':
        prog = case['prog']
        model, x = GP.build(prog, seed)
        args = dict(input_shape=GP.input_shape(prog), exclude_names=GP.excluded_names(prog))
        xs = (x,)
    elif kind == 'pit-twoin':
        torch.manual_seed(seed + 5)
        model = TwoInSharedBN() if case.get('shared_bn') else TwoIn()
        with torch.no_grad():
            model.bn.running_mean.normal_(0, 0.3)
            model.bn.running_var.uniform_(0.5, 1.5)
        xs = (torch.randn(3, 3, 8), torch.randn(3, 2, 8))
        args = dict(input_example=(xs[0][:1], xs[1][:1]))
        prog = None
    else:
        from plinio.methods.pit.nn import PITConv1d
        from plinio.methods.pit.nn.features_masker import PITFeaturesMasker
        from plinio.methods.pit.nn.timestep_masker import PITTimestepMasker
        from plinio.methods.pit.nn.dilation_masker import PITDilationMasker
        torch.manual_seed(seed + 6)

        class UserPlaced(nn.Module):
            def __init__(self):
                super().__init__()
                self.pad = nn.ConstantPad1d((2, 0), 0.0)
                self.c0 = PITConv1d(nn.Conv1d(3, 4, 3), PITFeaturesMasker(4), PITTimestepMasker(3), PITDilationMasker(3))
                self.bn = nn.BatchNorm1d(4)
                self.c1 = nn.Conv1d(4, 3, 1)
                self.fc = nn.Linear(3 * 8, 2)

            def forward(self, x):
                y = torch.relu(self.bn(self.c0(self.pad(x))))
                return self.fc(torch.flatten(torch.relu(self.c1(y)), 1))
        model = UserPlaced()
        with torch.no_grad():
            model.bn.running_mean.normal_(0, 0.3)
            model.bn.running_var.uniform_(0.5, 1.5)
        xs = (torch.randn(3, 3, 8),)
        args = dict(input_shape=(3, 8), autoconvert_layers=False)
        prog = None
    model.eval()
    with torch.no_grad():
        y0 = model(*xs).clone()
    sd0 = copy.deepcopy(model.state_dict())
    hyper0 = {n: _hyper(m) for n, m in model.named_modules() if isinstance(m, (nn.Conv1d, nn.Conv2d, nn.Linear, nn.BatchNorm1d, nn.BatchNorm2d))}
    model.train(train)
    try:
        nas = PIT(model, fold_bn=fold, **args)
    except Exception as e:
        add('conversion-raises', 'conversion-raises', f'PIT() raised {type(e).__name__}: {str(e)[:200]}')
        return
    res['evals'] += 1
    _mode_check(nas, train, add)
    # user model intact
    sd1 = model.state_dict()
    # (entries ADDED to the user's modules, e.g. feature-calculator buffers on user-placed searchable layers, do not alter its
    # parameters or outputs and are not flagged; changed or removed entries are)
    changed = [k for k in sd0 if k not in sd1 or not torch.equal(sd0[k], sd1[k])]
    up = '/user-placed-layer-followed-by-bn' if kind == 'pit-userplaced' else ''
    if changed:
        add('user-model-changed', 'user-model-changed/pit' + ('/fold' if fold else '') + up, f'state_dict entries of the user model changed by PIT(): {changed[:4]}')
    model.eval()
    with torch.no_grad():
        y_user = model(*xs)
    if not torch.equal(y_user, y0):
        add('user-model-output-changed', 'user-model-output-changed/pit' + ('/fold' if fold else '') + up, f'model.eval()(x) changed after PIT(): max|diff|={float((y_user - y0).abs().max()):.3e}')
    nas.eval()
    with torch.no_grad():
        y = nas(*xs)
    ok, why = tol.out_close(y0, y)
    twice_bn = prog is not None and any(s['op'] == 'twice' and (s.get('a') or {}).get('bn') for s in prog['stages'])
    if not ok:
        add('import-changes-function', 'import-changes-function/pit' + ('/fold' if fold else '') + ('/layer-with-bn-invoked-twice' if twice_bn else ''),
            f'PIT(model).eval()(x) vs model.eval()(x): {why}')
    try:
        with torch.no_grad():
            exp = D.export_with_bn(nas)
            exp.eval()
            nas.eval()
            ye = exp(*xs)
        ok2, why2 = tol.out_close(y0, ye)
        if not ok2:
            sig = 'export-after-import-differs/pit' + ('/fold' if fold else '')
            if twice_bn and not fold:
                try:
                    if D.repair_repeated_bn(exp) > 0 and tol.out_close(y0, exp(*xs))[0]:
                        sig = 'export-after-import-differs/bn-missing-at-repeated-call-site'
                except Exception:
                    pass
            elif twice_bn:
                sig += '/layer-with-bn-invoked-twice'
            add('export-after-import-differs', sig, f'immediate export vs original: {why2}')
        # original architecture
        emods = dict(exp.named_modules())
        for n, h in hyper0.items():
            if isinstance(model.get_submodule(n), (nn.BatchNorm1d, nn.BatchNorm2d)):
                continue
            e = emods.get(n)
            if e is None:
                add('exported-layer-missing', 'exported-layer-missing', f'{n} is not in the immediately exported network')
                continue
            he = _hyper(e)
            if fold:
                h = tuple(kv for kv in h if kv[0] != 'bias')
                he = tuple(kv for kv in he if kv[0] != 'bias')
            if type(e) is not type(model.get_submodule(n)) and not kind == 'pit-userplaced':
                add('exported-type-differs', 'exported-type-differs', f'{n}: {type(e).__name__} vs {type(model.get_submodule(n)).__name__}')
            elif he != h and not (kind == 'pit-userplaced' and n == 'c0'):
                add('exported-hyperparameters-differ', 'exported-hyperparameters-differ', f'{n}: {he} vs original {h}')
    except Exception as e:
        add('export-raises', 'export-raises/pit', f'{type(e).__name__}: {str(e)[:200]}')


def _run_sn(case, seed, res, add):
    from plinio.methods import SuperNet
    prog, train = case['prog'], case['train']
    model, x = G2.build(prog, seed, positive_input=False)
    model.eval()
    with torch.no_grad():
        y0 = model(x).clone()       # SuperNetModule forward = uniform soft mixture at initialisation
    sd0 = copy.deepcopy(model.state_dict())
    model.train(train)
    try:
        nas = SuperNet(model, input_shape=G2.input_shape(prog))
    except Exception as e:
        add('conversion-raises', 'conversion-raises/sn', f'SuperNet() raised {type(e).__name__}: {str(e)[:200]}')
        return
    res['evals'] += 1
    sd1 = model.state_dict()
    changed = [k for k in sd0 if k not in sd1 or not torch.equal(sd0[k], sd1[k])] + [k for k in sd1 if k not in sd0]
    if changed:
        add('user-model-changed', 'user-model-changed/sn', f'state_dict entries of the user model changed by SuperNet(): {changed[:4]}')
    model.eval()
    with torch.no_grad():
        y_user = model(x)
    if not torch.equal(y_user, y0):
        add('user-model-output-changed', 'user-model-output-changed/sn', f'model.eval()(x) changed after SuperNet(): max|diff|={float((y_user - y0).abs().max()):.3e}')
    nas.eval()
    with torch.no_grad():
        y = nas(x)
    ok, why = tol.out_close(y0, y)
    if not ok:
        add('import-changes-function', 'import-changes-function/sn', f'SuperNet(model).eval()(x) vs model.eval()(x): {why}')


def _run_mps_mode(case, seed, res, add):
    from plinio.methods.mps import MPS
    prog, train = case['prog'], case['train']
    model, x = G2.build(prog, seed)
    model.train(train)
    try:
        nas = MPS(model, input_shape=G2.input_shape(prog))
    except Exception as e:
        add('conversion-raises', 'conversion-raises/mps', f'MPS() raised {type(e).__name__}: {str(e)[:200]}')
        return
    res['evals'] += 1
    _mode_check(nas, train, add)


def run_case(case, seed):
    res = {'states': 1, 'transitions': 1, 'evals': 0, 'nontrivial': [], 'outcomes': set(), 'violations': []}
    base_case = dict(case)

    def add(kind, sig, msg):
        res['outcomes'].add(kind)
        label = case.get('prog', {}).get('stages') if isinstance(case.get('prog'), dict) else case['kind']
        res['violations'].append({'kind': kind, 'sig': sig, 'msg': f'{case["kind"]} fold_bn={case.get("fold_bn")} train={case["train"]} {label}: {msg}',
                                  'case': base_case})

    if case['kind'].startswith('pit'):
        _run_pit(case, seed, res, add)
    elif case['kind'] == 'sn':
        _run_sn(case, seed, res, add)
    else:
        _run_mps_mode(case, seed, res, add)
    if not res['violations']:
        res['outcomes'].add('preserved')
    import hashlib
    import json
    res['nontrivial'].append(hashlib.sha1(json.dumps(case, sort_keys=True).encode()).hexdigest()[:16])
    res['outcomes'] = sorted(res['outcomes'])
    res['sample'] = {k: case[k] for k in case if k != 'tier'}
    return res
