"""C03 - SuperNet export keeps exactly the arg-max branch of every choice block.

Configuration-lattice explorer over G_sn: every combination of winning branches (complete product) x 3 tie-free
representatives of "branch i wins".  Oracle: with hard selection SuperNet.eval()(x) == export().eval()(x); the exported module
tree contains the winning branch of every block and none of the others and no combiner; every module outside choice blocks is
the same object with unchanged parameters.
"""
import itertools

import torch
import torch.nn as nn

from .. import tol
from ..grammar import net2d as G2
from ..grammar import sn as GS
from .c10 import _reps

PID = 'C03'
RULE = ('programs: G_sn - one block with every pair/triple (thorough: quadruple) of the 10 branch kinds (single conv layers, nn.Sequential, user blocks ending in a '
        'sub-module / in a functional op, nested blocks, depthwise-separable, Identity), blocks of 4..12 branches, blocks used twice, 2 and 3 blocks, blocks '
        'changing the width; configurations: EVERY combination of winning branches x 3 representatives; non-trivial = every (program, winners, representative)')
ASSUMPTIONS = ['"on every input" decided on a seeded witness batch', 'arg-max abstraction A2 (tie-free representatives with gaps >= 0.05)']


def bounds(tier):
    return {'quick': {'blocks': '1..3', 'branches': '2..12', 'winner_combinations': 'complete'},
            'thorough': {'blocks': '1..3', 'branches': '2..12', 'winner_combinations': 'complete', 'extra': 'all 4-subsets of branch kinds, twice-used second block'}}[tier]


def cases(tier, seed):
    return [{'prog': p, 'tier': tier} for p in GS.gen(tier)]


def make(prog, seed, **kw):
    from plinio.methods import SuperNet
    model, x = G2.build(prog, seed, positive_input=False)
    nas = SuperNet(model, **G2.shape_args(prog, x), **kw)
    return nas, x, model


def set_winners(combs, winners, rep, via=None):
    """the three ways coefficients get written in practice (the library itself assigns `.data` in optimize_prec_assignment):
    in-place copy under no_grad, `.data` re-assignment, in-place copy into `.data` (the last two do not bump the version counter)"""
    with torch.no_grad():
        for (_, m), w in zip(combs, winners):
            t = _reps(m.n_branches, w)[rep % 3]
            v = rep if via is None else via
            if v % 3 == 0:
                m.alpha.copy_(t)
            elif v % 3 == 1:
                m.alpha.data = t.clone()
            else:
                m.alpha.data.copy_(t)


def has_fblk_winner(prog, winners):
    blocks = [s for s in prog['stages'] if s['op'] == 'sn']
    return any(b['branches'][w] == 'fblk' for b, w in zip(blocks, winners))


def run_case(case, seed):
    prog = case['prog']
    res = {'states': 0, 'transitions': 0, 'evals': 0, 'nontrivial': [], 'outcomes': set(), 'violations': []}
    base_case = {k: v for k, v in case.items() if k != 'only'}
    ssig = _shape_sig(prog)

    def add(kind, sig, msg, label):
        res['outcomes'].add(kind)
        res['violations'].append({'kind': kind, 'sig': sig, 'msg': f'{ssig}: {label}: {msg}', 'case': dict(base_case, only=label)})

    try:
        nas, x, model = make(prog, seed)
    except Exception as e:
        res.update(states=1, evals=1)
        add('conversion-raises', 'conversion-raises', f'SuperNet() raised {type(e).__name__}: {str(e)[:200]}', None)
        res['outcomes'] = sorted(res['outcomes'])
        return res
    nas.eval()
    nas.update_softmax_options(hard=True)
    combs = GS.combiners(nas)
    blocks = [s for s in prog['stages'] if s['op'] == 'sn']
    fixed_before = {n: (m, {k: v.clone() for k, v in m.state_dict().items()}) for n, m in nas.seed.named_modules()
                    if 'sn_branches' not in n and 'sn_combiner' not in n and len(list(m.children())) == 0}
    only = case.get('only')
    pos = -1
    for winners in itertools.product(*[range(m.n_branches) for _, m in combs]):
        for rep in range(3):
            pos += 1    # position in the full enumeration (the same on replay of a single state)
            label = {'winners': list(winners), 'rep': rep}
            if only is not None and only != label:
                continue
            # the way of writing rotates independently of the representative, so that every change of winner is
            # made through each of the three write paths somewhere in the enumeration
            set_winners(combs, winners, rep, via=pos // 3 + rep)
            res['states'] += 1
            res['transitions'] += len(winners)
            res['evals'] += 1
            res['nontrivial'].append(f'{ssig}/{winners}/{rep}')
            fb = has_fblk_winner(prog, winners)
            try:
                with torch.no_grad():
                    # three export protocols rotate through the enumeration: (0) forward, then export; (1) export straight after the
                    # coefficients were written - no forward in between - then forward; (2) forward, then export while the SuperNet is
                    # in TRAINING mode (export must neither use a stale selection nor touch BatchNorm statistics)
                    proto = (pos // 3 + rep) % 3
                    if proto == 1:
                        exp = nas.export()
                        nas.eval()
                        y = nas(x)
                    elif proto == 2:
                        y = nas(x)
                        nas.train()
                        exp = nas.export()
                        nas.eval()
                    else:
                        y = nas(x)
                        exp = nas.export()
                    exp.eval()
                    nas.eval()
                    ye = exp(x)
            except Exception as e:
                sig = 'export-raises/winner-ends-in-functional-op' if fb else 'export-or-run-raises'
                add('export-or-run-raises', sig, f'{type(e).__name__}: {str(e)[:200]}', label)
                continue
            ok, why = tol.out_close(y, ye)
            if not ok:
                add('output-differs', 'output-differs' + ('/winner-ends-in-functional-op' if fb else ''),
                    f'hard-selection SuperNet output vs exported: {why}', label)
            # module tree
            names = [n for n, _ in exp.named_modules()]
            if any(type(m).__name__ == 'SuperNetCombiner' for _, m in exp.named_modules()):
                add('combiner-survives', 'combiner-survives', 'exported network still contains a SuperNetCombiner', label)
            for (cn, m), w, b in zip(combs, winners, blocks):
                blk = cn[len('seed.'):].rsplit('.', 1)[0]
                alive = sorted({int(n[len(blk) + len('.sn_branches.'):].split('.')[0]) for n in names if n.startswith(blk + '.sn_branches.')})
                want = [w]
                if alive != want and not (b['branches'][w] == 'id' and alive == []):
                    add('wrong-branches-kept', 'wrong-branches-kept' + ('/winner-ends-in-functional-op' if fb else ''),
                        f'block {blk}: exported network keeps branches {alive}, arg-max is {w} ({b["branches"][w]})', label)
                elif want:
                    # the surviving branch has all the leaf layers of the winning branch
                    src = [n for n, mm in nas.seed.named_modules()
                           if (n == f'{blk}.sn_branches.{w}' or n.startswith(f'{blk}.sn_branches.{w}.')) and len(list(mm.children())) == 0
                           and not isinstance(mm, nn.Identity)]
                    missing = [n for n in src if n not in names]
                    if missing:
                        add('winner-layers-missing', 'winner-layers-missing', f'block {blk}: layers {missing[:3]} of the winning branch are not in the exported network', label)
            # outside choice blocks: same objects, unchanged parameters
            emods = dict(exp.named_modules())
            for n, (m, sd) in fixed_before.items():
                if n in emods and emods[n] is not m:
                    add('fixed-layer-replaced', 'fixed-layer-replaced', f'{n} outside the choice blocks is a different object in the exported network', label)
                for k, v in m.state_dict().items():
                    if not torch.equal(v, sd[k]):
                        add('fixed-layer-changed', 'fixed-layer-changed', f'{n}.{k} changed', label)
                        break
            if n and ok:
                res['outcomes'].add('equal')
    # ties for the largest coefficient (incl. the untouched all-equal coefficients of a fresh SuperNet): whatever branch "the largest"
    # resolves to, export must keep the branch the hard-selection forward uses
    tie_states = [('fresh', None)]
    n0 = combs[0][1].n_branches if combs else 0
    for i in range(n0):
        for j in range(i + 1, n0):
            tie_states.append(('tie', (i, j)))
    for kind, pair in tie_states:
        label = {'tie': kind, 'pair': list(pair) if pair else None}
        if only is not None and only != label:
            continue
        with torch.no_grad():
            for bi, (_, m) in enumerate(combs):
                a = torch.full((m.n_branches,), 1.0 / m.n_branches)
                if kind == 'tie' and bi == 0:
                    a = torch.linspace(0.0, 0.2, m.n_branches)
                    a[pair[0]] = 0.9
                    a[pair[1]] = 0.9
                m.alpha.copy_(a)
        res['states'] += 1
        res['transitions'] += 1
        res['evals'] += 1
        try:
            with torch.no_grad():
                y = nas(x)
                exp = nas.export()
                exp.eval()
                nas.eval()
                ye = exp(x)
            ok, why = tol.out_close(y, ye)
            if not ok:
                add('output-differs', 'output-differs/tied-maximum', f'coefficients with a tie for the maximum: hard-selection output vs exported: {why}', label)
            else:
                res['outcomes'].add('equal')
        except Exception as e:
            if not any(b == 'fblk' for blk in blocks for b in blk['branches']):
                add('export-or-run-raises', 'export-or-run-raises/tied-maximum', f'{type(e).__name__}: {str(e)[:200]}', label)
    res['outcomes'] = sorted(res['outcomes'])
    res['sample'] = {'prog': prog, 'blocks': [m.n_branches for _, m in combs], 'tie_states': len(tie_states)}
    return res


def _shape_sig(prog):
    return '|'.join(('sn[' + ','.join(s['branches']) + ']' + ('x2' if s.get('twice') else '')) if s['op'] == 'sn' else s['op'] for s in prog['stages']) + '/' + prog['head']
