"""C03 - SuperNet export keeps exactly the arg-max branch of every choice block.

Configuration-lattice explorer over G_sn: every combination of winning branches (complete product) x 3 tie-free
representatives of "branch i wins".  Oracle: with hard selection SuperNet.eval()(x) == export().eval()(x); the exported module
tree contains the winning branch of every block and none of the others and no combiner; every module outside choice blocks is
the same object with unchanged parameters.

Branch kinds include user blocks with an INTERNAL FORK (G_sn.gen_fork: the first layer's output is consumed twice inside the branch - as the
last / first operand of a residual sum, as a member of a concat, one nesting level down), as losers and as winners, in blocks used once and twice.
The "nothing of a losing branch survives" oracle looks at the exported module tree (named_modules) AND at the exported fx graph (no call_module /
get_attr node whose target lies in a losing branch or is a combiner, no node left without users).
Deep-copy protocol ('dc' in the case): the whole exploration runs on a copy.deepcopy() of the converted SuperNet, taken (1) right after construction,
before any forward, (2) after the original was switched to eval / hard selection and ran a forward under no_grad, (3) after the original was
exported once; the original is kept alive, is never written, and must come out of the exploration unchanged.
"""
import copy
import itertools

import torch
import torch.nn as nn

from .. import tol
from ..grammar import net2d as G2
from ..grammar import sn as GS
from .c10 import _reps

PID = 'C03'
RULE = ('programs: G_sn - one block with every pair/triple (thorough: quadruple) of the 10 branch kinds (single conv layers, nn.Sequential, user blocks ending in a '
        'sub-module / in a functional op, nested blocks, depthwise-separable, Identity), blocks of 4..12 branches, blocks used twice, 2 and 3 blocks, blocks '
        'changing the width; plus G_sn.gen_fork: 5 kinds of user blocks with an INTERNAL FORK (stem output consumed twice inside the branch: last / first operand '
        'of a residual sum, last / first member of a concat, fork one nesting level down), each paired with each of the 10 plain kinds and with each other (so each is '
        'the only loser and the only winner somewhere), in blocks used once and twice, in 2 and 3 blocks, in width-changing blocks (thorough: with every pair of plain kinds); '
        'configurations: EVERY combination of winning branches x 3 representatives; oracle on the exported module tree AND on the exported fx graph nodes; '
        'protocol "dc": the same exploration on a copy.deepcopy() of the converted SuperNet (copy taken fresh / after a no_grad hard forward / after an export of the '
        'original; the original kept alive and required to stay unchanged) for every third program (quick) / every program (thorough), in addition to the direct exploration; '
        'non-trivial = every (program, winners, representative), keys of deep-copy runs carry the suffix /dc<k>, keys of programs with fork branches show the frk* kinds')
ASSUMPTIONS = ['"on every input" decided on a seeded witness batch', 'arg-max abstraction A2 (tie-free representatives with gaps >= 0.05)',
               'deep copies are taken only at points where copy.deepcopy() of a SuperNet is possible at all: before any forward with autograd enabled '
               '(theta_alpha becomes a non-leaf tensor attribute after one, and torch refuses to deep-copy it)']


def bounds(tier):
    return {'quick': {'blocks': '1..3', 'branches': '2..12', 'winner_combinations': 'complete', 'fork_branch_kinds': len(GS.FORK_KINDS),
                      'deep_copy_protocol': 'every third program, copy moment rotating over 3'},
            'thorough': {'blocks': '1..3', 'branches': '2..12', 'winner_combinations': 'complete', 'extra': 'all 4-subsets of branch kinds, twice-used second block',
                         'fork_branch_kinds': len(GS.FORK_KINDS), 'deep_copy_protocol': 'every program, copy moment rotating over 3'}}[tier]


FORK_KINDS = set(GS.FORK_KINDS)
FUNC_END = {'fblk', 'frkl', 'frkf'}      # branch kinds whose last operation is a functional op


class _NoGraph:
    nodes = ()


def cases(tier, seed):
    progs = GS.gen(tier) + GS.gen_fork(tier) + GS.gen_inplace(tier)
    out = [{'prog': p, 'tier': tier} for p in progs]
    # deep-copy protocol: IN ADDITION to the direct exploration (which stays complete), the same exploration on a deep copy of the converted
    # SuperNet; the moment of the copy rotates over the selected programs
    k = 0
    for i, p in enumerate(progs):
        if tier == 'thorough' or i % 3 == 1:
            out.append({'prog': p, 'tier': tier, 'dc': 1 + k % 3})
            k += 1
    return out


def make(prog, seed, **kw):
    from plinio.methods import SuperNet
    model, x = G2.build(prog, seed, positive_input=False)
    nas = SuperNet(model, **G2.shape_args(prog, x), **kw)
    return nas, x, model


def set_winners(combs, winners, rep, via=None):
    """the three ways coefficients get written in practice (the library itself assigns `.data` in optimize_prec_assignment):
    in-place copy under no_grad, `.data` re-assignment, in-place copy into `.data` (the last two do not bump the version counter)"""
    with torch.no_grad():
        for (_, m), w in zip(combs, winners):
            t = _reps(m.n_branches, w)[rep % 3]
            v = rep if via is None else via
            if v % 3 == 0:
                m.alpha.copy_(t)
            elif v % 3 == 1:
                m.alpha.data = t.clone()
            else:
                m.alpha.data.copy_(t)


def has_fblk_winner(prog, winners):
    blocks = [s for s in prog['stages'] if s['op'] == 'sn']
    return any(b['branches'][w] in FUNC_END for b, w in zip(blocks, winners))


def branch_of(target, blk):
    """index of the branch of block `blk` a qualified name lies in, None when it does not"""
    pre = blk + '.sn_branches.'
    if not str(target).startswith(pre):
        return None
    head = str(target)[len(pre):].split('.')[0]
    return int(head) if head.isdigit() else None


def run_case(case, seed):
    prog = case['prog']
    res = {'states': 0, 'transitions': 0, 'evals': 0, 'nontrivial': [], 'outcomes': set(), 'violations': []}
    base_case = {k: v for k, v in case.items() if k != 'only'}
    dc = int(case.get('dc', 0))
    ssig = _shape_sig(prog) + (f'/dc{dc}' if dc else '')
    dc_names = {1: 'copied-right-after-construction', 2: 'copied-after-hard-forward-of-the-original', 3: 'copied-after-export-of-the-original'}

    def add(kind, sig, msg, label):
        res['outcomes'].add(kind)
        if dc:      # the signature names the protocol
            sig = f'{sig}/on-deep-copy'
            msg = f'[deep copy {dc_names[dc]}] {msg}'
        res['violations'].append({'kind': kind, 'sig': sig, 'msg': f'{ssig}: {label}: {msg}', 'case': dict(base_case, only=label)})

    try:
        nas, x, model = make(prog, seed)
    except Exception as e:
        res.update(states=1, evals=1)
        add('conversion-raises', 'conversion-raises', f'SuperNet() raised {type(e).__name__}: {str(e)[:200]}', None)
        res['outcomes'] = sorted(res['outcomes'])
        return res
    orig = orig_sd = orig_y = None
    if dc:
        # deep-copy protocol: everything below runs on a deep copy; the original stays alive and is never written
        orig = nas
        try:
            with torch.no_grad():
                if dc == 2:
                    orig.eval()
                    orig.update_softmax_options(hard=True)
                    orig(x)
                elif dc == 3:
                    orig.export()
            nas = copy.deepcopy(orig)
        except Exception as e:
            res.update(states=1, evals=1)
            add('deepcopy-raises', 'deepcopy-raises', f'copy.deepcopy(SuperNet) raised {type(e).__name__}: {str(e)[:200]}', None)
            res['outcomes'] = sorted(res['outcomes'])
            return res
        model = None
        with torch.no_grad():
            orig.eval()
            orig_y = orig(x)
        orig_sd = {k: v.clone() for k, v in orig.state_dict().items()}
        shared = [n for n, m in nas.named_modules() if any(m is mo for mo in orig.modules())]
        ptrs = {t.data_ptr() for t in list(orig.parameters()) + list(orig.buffers()) if t.numel()}
        shared += [n for n, t in list(nas.named_parameters()) + list(nas.named_buffers()) if t.numel() and t.data_ptr() in ptrs]
        if shared:
            add('copy-shares-state', 'copy-shares-state', f'the deep copy shares modules / tensors with the original: {shared[:4]}', None)
    nas.eval()
    nas.update_softmax_options(hard=True)
    combs = GS.combiners(nas)
    blocks = [s for s in prog['stages'] if s['op'] == 'sn']
    fixed_before = {n: (m, {k: v.clone() for k, v in m.state_dict().items()}) for n, m in nas.seed.named_modules()
                    if 'sn_branches' not in n and 'sn_combiner' not in n and len(list(m.children())) == 0}
    only = case.get('only')
    pos = -1
    for winners in itertools.product(*[range(m.n_branches) for _, m in combs]):
        for rep in range(3):
            pos += 1    # position in the full enumeration (the same on replay of a single state)
            label = {'winners': list(winners), 'rep': rep}
            if only is not None and only != label:
                continue
            # the way of writing rotates independently of the representative, so that every change of winner is
            # made through each of the three write paths somewhere in the enumeration
            set_winners(combs, winners, rep, via=pos // 3 + rep)
            res['states'] += 1
            res['transitions'] += len(winners)
            res['evals'] += 1
            res['nontrivial'].append(f'{ssig}/{winners}/{rep}')       # (ssig names fork kinds and the deep-copy protocol)
            fb = has_fblk_winner(prog, winners)
            try:
                with torch.no_grad():
                    # three export protocols rotate through the enumeration: (0) forward, then export; (1) export straight after the
                    # coefficients were written - no forward in between - then forward; (2) forward, then export while the SuperNet is
                    # in TRAINING mode (export must neither use a stale selection nor touch BatchNorm statistics)
                    proto = (pos // 3 + rep) % 3
                    if proto == 1:
                        exp = nas.export()
                        nas.eval()
                        y = nas(x)
                    elif proto == 2:
                        y = nas(x)
                        nas.train()
                        exp = nas.export()
                        nas.eval()
                    else:
                        y = nas(x)
                        exp = nas.export()
                    exp.eval()
                    nas.eval()
                    ye = exp(x)
            except Exception as e:
                sig = 'export-raises/winner-ends-in-functional-op' if fb else 'export-or-run-raises'
                add('export-or-run-raises', sig, f'{type(e).__name__}: {str(e)[:200]}', label)
                continue
            ok, why = tol.out_close(y, ye)
            if not ok:
                # D46 (listed): a WINNING user block with a statement-form in-place call (`h.relu_()`, result unused): the call is a node without
                # users and export()'s dead-code elimination drops it.  Structural predicate (such a block wins) AND causal one (the exported
                # graph has fewer in-place call_method nodes than the winning blocks contain)
                n_inpl = sum(1 for b, w in zip(blocks, winners) if b['branches'][w] == 'inpl')
                kept = sum(1 for nd in getattr(exp, 'graph', _NoGraph).nodes if nd.op == 'call_method' and str(nd.target) == 'relu_')
                d46 = n_inpl > 0 and kept == 0
                add('output-differs', 'output-differs' + ('/winner-ends-in-functional-op' if fb else '')
                    + ('/winning-block-has-statement-form-inplace-op-dropped-by-export' if d46 else ''),
                    f'hard-selection SuperNet output vs exported: {why}', label)
            # module tree
            names = [n for n, _ in exp.named_modules()]
            if any(type(m).__name__ == 'SuperNetCombiner' for _, m in exp.named_modules()):
                add('combiner-survives', 'combiner-survives', 'exported network still contains a SuperNetCombiner', label)
            for (cn, m), w, b in zip(combs, winners, blocks):
                blk = cn[len('seed.'):].rsplit('.', 1)[0]
                alive = sorted({int(n[len(blk) + len('.sn_branches.'):].split('.')[0]) for n in names if n.startswith(blk + '.sn_branches.')})
                want = [w]
                if alive != want and not (b['branches'][w] == 'id' and alive == []):
                    lf = any(b['branches'][i] in FORK_KINDS for i in alive if i != w and i < len(b['branches']))
                    add('wrong-branches-kept', 'wrong-branches-kept' + ('/winner-ends-in-functional-op' if fb else '')
                        + ('/losing-branch-with-internal-fork' if lf else ''),
                        f'block {blk}: exported network keeps branches {alive} ({[b["branches"][i] for i in alive if i < len(b["branches"])]}), '
                        f'arg-max is {w} ({b["branches"][w]})', label)
                elif want:
                    # the surviving branch has all the leaf layers of the winning branch
                    src = [n for n, mm in nas.seed.named_modules()
                           if (n == f'{blk}.sn_branches.{w}' or n.startswith(f'{blk}.sn_branches.{w}.')) and len(list(mm.children())) == 0
                           and not isinstance(mm, nn.Identity)]
                    missing = [n for n in src if n not in names]
                    if missing:
                        add('winner-layers-missing', 'winner-layers-missing', f'block {blk}: layers {missing[:3]} of the winning branch are not in the exported network', label)
            # exported fx graph: no call_module / get_attr node pointing into a losing branch or at a combiner, no node left without users
            # (a layer of a discarded branch that stays in the graph keeps executing even when nothing consumes its result)
            graph = getattr(exp, 'graph', None)
            if graph is None:
                add('export-not-a-graph-module', 'export-not-a-graph-module', f'export() returned {type(exp).__name__} without an fx graph', label)
            else:
                for (cn, m), w, b in zip(combs, winners, blocks):
                    blk = cn[len('seed.'):].rsplit('.', 1)[0]
                    stray = sorted({(str(nd.target), branch_of(nd.target, blk)) for nd in graph.nodes
                                    if nd.op in ('call_module', 'get_attr') and branch_of(nd.target, blk) not in (None, w)})
                    if stray:
                        lk = sorted({b['branches'][i] for _, i in stray})
                        add('loser-node-in-graph', 'loser-node-in-graph' + ('/losing-branch-with-internal-fork' if FORK_KINDS & set(lk) else ''),
                            f'block {blk}: exported graph still calls {[t for t, _ in stray][:4]} of the discarded branches {lk}, arg-max is {w} ({b["branches"][w]})', label)
                    if any(nd.op in ('call_module', 'get_attr') and str(nd.target) == cn[len('seed.'):] for nd in graph.nodes):
                        add('combiner-survives', 'combiner-survives/graph-node', f'exported graph still calls {cn}', label)
                # (a statement-form in-place call such as `h.relu_()` legitimately has no users: it lives through the tensor it modifies)
                def _inplace_stmt(nd):
                    return (nd.op == 'call_method' and str(nd.target).endswith('_') and not str(nd.target).endswith('__') and len(nd.args) > 0
                            and hasattr(nd.args[0], 'users') and len(nd.args[0].users) > 1)
                dangling = [nd.name for nd in graph.nodes if nd.op not in ('output', 'placeholder') and len(nd.users) == 0 and not _inplace_stmt(nd)]
                if dangling:
                    losers_fork = any(b['branches'][i] in FORK_KINDS for b, w in zip(blocks, winners) for i in range(len(b['branches'])) if i != w)
                    add('dangling-node-in-graph', 'dangling-node-in-graph' + ('/losing-branch-with-internal-fork' if losers_fork else ''),
                        f'exported graph has nodes whose result nobody uses: {dangling[:4]}', label)
            # outside choice blocks: same objects, unchanged parameters
            emods = dict(exp.named_modules())
            for n, (m, sd) in fixed_before.items():
                if n in emods and emods[n] is not m:
                    add('fixed-layer-replaced', 'fixed-layer-replaced', f'{n} outside the choice blocks is a different object in the exported network', label)
                for k, v in m.state_dict().items():
                    if not torch.equal(v, sd[k]):
                        add('fixed-layer-changed', 'fixed-layer-changed', f'{n}.{k} changed', label)
                        break
            if n and ok:
                res['outcomes'].add('equal')
    # ties for the largest coefficient (incl. the untouched all-equal coefficients of a fresh SuperNet): whatever branch "the largest"
    # resolves to, export must keep the branch the hard-selection forward uses
    tie_states = [('fresh', None)]
    n0 = combs[0][1].n_branches if combs else 0
    for i in range(n0):
        for j in range(i + 1, n0):
            tie_states.append(('tie', (i, j)))
    for kind, pair in tie_states:
        label = {'tie': kind, 'pair': list(pair) if pair else None}
        if only is not None and only != label:
            continue
        with torch.no_grad():
            for bi, (_, m) in enumerate(combs):
                a = torch.full((m.n_branches,), 1.0 / m.n_branches)
                if kind == 'tie' and bi == 0:
                    a = torch.linspace(0.0, 0.2, m.n_branches)
                    a[pair[0]] = 0.9
                    a[pair[1]] = 0.9
                m.alpha.copy_(a)
        res['states'] += 1
        res['transitions'] += 1
        res['evals'] += 1
        try:
            with torch.no_grad():
                y = nas(x)
                exp = nas.export()
                exp.eval()
                nas.eval()
                ye = exp(x)
            ok, why = tol.out_close(y, ye)
            if not ok:
                add('output-differs', 'output-differs/tied-maximum', f'coefficients with a tie for the maximum: hard-selection output vs exported: {why}', label)
            else:
                res['outcomes'].add('equal')
        except Exception as e:
            if not any(b == 'fblk' for blk in blocks for b in blk['branches']):
                add('export-or-run-raises', 'export-or-run-raises/tied-maximum', f'{type(e).__name__}: {str(e)[:200]}', label)
    if dc and only is None:
        # the original the copy was taken from: never written above, so its parameters, buffers and hard-selection output are what they were
        label = None        # (replay = the whole exploration of this program)
        res['states'] += 1
        res['evals'] += 1
        changed = [k for k, v in orig.state_dict().items() if not torch.equal(v, orig_sd[k])]
        if changed:
            add('original-changed', 'original-changed', f'exploring the deep copy changed {changed[:4]} of the original SuperNet', label)
        try:
            with torch.no_grad():
                orig.eval()
                y2 = orig(x)
            if not torch.equal(y2, orig_y):
                add('original-changed', 'original-changed/output', f'output of the untouched original moved by {float((y2 - orig_y).abs().max()):.3g} while the copy was explored', label)
        except Exception as e:
            add('original-changed', 'original-changed/raises', f'{type(e).__name__}: {str(e)[:200]}', label)
    res['outcomes'] = sorted(res['outcomes'])
    res['sample'] = {'prog': prog, 'dc': dc, 'blocks': [m.n_branches for _, m in combs], 'tie_states': len(tie_states)}
    return res


def _shape_sig(prog):
    return '|'.join(('sn[' + ','.join(s['branches']) + ']' + ('x2' if s.get('twice') else '')) if s['op'] == 'sn' else s['op'] for s in prog['stages']) + '/' + prog['head']
