"""C11 - trainability controls do what they say under every sequence of calls.

History explorer.  Alphabet exactly as in the quantifier: train_nas_only / train_net_only / train_net_and_nas,
train_features / train_rf / train_dilation := T/F and discrete_cost := T/F (PIT), update_softmax_options with EACH SINGLE
option (MPS: temperature, hard, gumbel, disable_sampling; SuperNet: temperature, hard), forward+backward of loss+cost.
A reference model (trainability_ref, below) is stepped along every history; after every transition the real model is
compared with it:  (1) NAS and net parameters partition parameters() (identity based), (2) requires_grad of every parameter,
(3) by-construction-frozen masks (decided at program level, not from class names) never trainable and without gradient
after backward, (4) the sampling options of every quantizer / combiner, observed BEHAVIOURALLY: the coefficients it samples
under a fixed RNG seed must equal what the reference sampler predicts from the reference option tuple.
"""
import torch
import torch.nn.functional as Fn

from .. import fixtures as F
from .. import history as H
from ..grammar import pit as GP

PID = 'C11'
RULE = ('BFS (closure on the observed abstract state: requires_grad of every parameter, sampled coefficients of every quantizer/combiner under a '
        'fixed seed, discrete_cost) over all call sequences up to the depth bound over the alphabet of the quantifier, on a PIT model with frozen '
        '(strided conv RF/dilation, input-connected depthwise, output layer) and shared (residual) maskers, an MPS model with shared quantizers and '
        'a SuperNet; after every transition the real model is compared with a reference model stepped along the same history; '
        'non-trivial = a transition that changes the reference state')
ASSUMPTIONS = ['the NAS / net groups are the ones the model itself reports (named_nas_parameters / named_net_parameters); the check asserts that they '
               'partition parameters() and that train_* act on exactly those groups',
               'frozen-by-construction = feature masks of layers tied to network inputs/outputs and RF/dilation masks of strided convolutions (program level)',
               'sampling options are observed through the coefficients a quantizer samples when called directly under a fixed seed']


def bounds(tier):
    return {'quick': {'depth': 4, 'max_states': 400}, 'thorough': {'depth': 6, 'max_states': 4000}}[tier]


MODELS = [('pit', 'pit1d_frozen'), ('pit', 'pit1d'), ('pit', 'pit1d_flatout'), ('mps', 'mps_a'), ('mps', 'mps_b'), ('sn', 'sn_a'), ('sn', 'sn_gumbel')]


def cases(tier, seed):
    return [{'method': m, 'model': n, 'tier': tier} for m, n in MODELS]


def _alphabet(method):
    common = ['nas_only', 'net_only', 'net_and_nas', 'fwdbwd']
    if method == 'pit':
        return common + ['feat=1', 'feat=0', 'rf=1', 'rf=0', 'dil=1', 'dil=0', 'disc=1', 'disc=0']
    if method == 'mps':
        return common + ['temp=0.5', 'temp=2.0', 'hard=1', 'hard=0', 'gumbel=1', 'gumbel=0', 'dis=1', 'dis=0']
    return common + ['temp=0.5', 'temp=2.0', 'hard=1', 'hard=0']


# ----------------------------------------------------------------------------------------------
# reference model
# ----------------------------------------------------------------------------------------------
class Ref:
    def __init__(self, method, groups, frozen, opts):
        self.method = method
        self.groups = groups            # param name -> 'net' | 'feat' | 'rf' | 'dil' | 'nas'
        self.frozen = frozen            # set of param names frozen by construction
        self.rg = {n: (n not in frozen) for n in groups}
        if method == 'sn':
            pass
        self.opts = dict(opts)          # temperature, hard, gumbel, dis  (same for every quantizer)
        self.disc = False

    def step(self, op):
        before = (dict(self.rg), dict(self.opts), self.disc)
        if op in ('nas_only', 'net_only', 'net_and_nas'):
            for n, g in self.groups.items():
                if n in self.frozen:
                    self.rg[n] = False
                elif g == 'net':
                    self.rg[n] = op in ('net_only', 'net_and_nas')
                else:
                    self.rg[n] = op in ('nas_only', 'net_and_nas')
        elif op.split('=')[0] in ('feat', 'rf', 'dil'):
            k, v = op.split('=')
            for n, g in self.groups.items():
                if g == k and n not in self.frozen:
                    self.rg[n] = v == '1'
        elif op.startswith('disc='):
            self.disc = op.endswith('1')
        elif op.startswith('temp='):
            self.opts['temperature'] = float(op.split('=')[1])
        elif op.startswith('hard='):
            self.opts['hard'] = op.endswith('1')
        elif op.startswith('gumbel='):
            self.opts['gumbel'] = op.endswith('1')
        elif op.startswith('dis='):
            self.opts['dis'] = op.endswith('1')
        return before != (self.rg, self.opts, self.disc)


def _ref_sample(alpha, opts, prev_theta, seed, training=True):
    """reference sampler: softmax with temperature, optional Gumbel noise in training, one-hot when hard"""
    if opts.get('dis'):
        return prev_theta
    t = opts['temperature']
    if opts.get('gumbel') and training:
        torch.manual_seed(seed)
        return Fn.gumbel_softmax(alpha, tau=t, hard=opts['hard'], dim=0)
    th = Fn.softmax(alpha / t, dim=0)
    if opts['hard'] or not training:
        idx = torch.argmax(th, dim=0)
        th = Fn.one_hot(idx, num_classes=th.shape[0]).to(torch.float32)
        if th.dim() == 2:
            th = th.t()
    return th


# ----------------------------------------------------------------------------------------------
def _build(case, seed):
    method, name = case['method'], case['model']
    from plinio.cost import params, params_bit
    nas, x, _ = F.make(method, name, seed, train=True, cost=params_bit if method == 'mps' else params)
    nas.train()
    return nas, x


def _param_names(nas):
    return {id(p): n for n, p in nas.named_parameters()}


def _groups_and_frozen(case, nas):
    """reference classification of parameters; the nas/net split is taken from the model's own report"""
    method = case['method']
    ids = _param_names(nas)
    groups, frozen = {}, set()
    nas_ids = [id(p) for _, p in nas.named_nas_parameters()]
    for n, p in nas.named_parameters():
        if id(p) in nas_ids:
            if method == 'pit':
                groups[n] = 'feat' if n.endswith('.alpha') else 'rf' if n.endswith('.beta') else 'dil' if n.endswith('.gamma') else 'nas'
            else:
                groups[n] = 'nas'
        else:
            groups[n] = 'net'
    if method == 'pit':
        prog = F.PIT_PROGS[case['model']]
        full = GP.must_be_full(prog)
        for lname in GP.layer_names(prog):
            layer = nas.seed.get_submodule(lname)
            if not hasattr(layer, 'out_features_masker'):
                continue
            if lname in full:
                for p in layer.out_features_masker.parameters():
                    frozen.add(ids[id(p)])
            if hasattr(layer, 'timestep_masker') and layer.stride[0] != 1:
                for p in list(layer.timestep_masker.parameters()) + list(layer.dilation_masker.parameters()):
                    frozen.add(ids[id(p)])
    return groups, frozen


def _samplers(case, nas):
    """the objects that sample coefficients: (name, module, kind)"""
    out, seen = [], set()
    if case['method'] == 'mps':
        from plinio.methods.mps.nn.qtz import MPSBaseQtz
        for n, m in nas.named_modules():
            if isinstance(m, MPSBaseQtz) and id(m) not in seen and m.alpha.numel() > 1:
                seen.add(id(m))
                out.append((n, m, 'mps'))
    elif case['method'] == 'sn':
        from plinio.methods.supernet.nn.combiner import SuperNetCombiner
        for n, m in nas.named_modules():
            if isinstance(m, SuperNetCombiner):
                out.append((n, m, 'sn'))
    return out


def _observe_sampler(m, kind, seed):
    """call the sampler's own forward under a fixed seed, return (prev_theta, new_theta)"""
    prev = m.theta_alpha.detach().clone()
    torch.manual_seed(seed)
    with torch.no_grad():
        if kind == 'mps':
            shape = (2, m.alpha.shape[1], 2, 2) if m.alpha.dim() == 2 else (2, 3, 2, 2)
            inp = torch.full(shape, 0.3)
            if m.alpha.dim() == 2:   # per-channel weight quantizer: input is a weight tensor (cout, cin, k, k)
                inp = torch.full((m.alpha.shape[1], 2, 1, 1), 0.3)
            m(inp)
        else:
            m([torch.zeros(1, 2) for _ in range(m.n_branches)])
    return prev, m.theta_alpha.detach().clone()


def _apply(nas, x, op, method):
    if op == 'nas_only':
        nas.train_nas_only()
    elif op == 'net_only':
        nas.train_net_only()
    elif op == 'net_and_nas':
        nas.train_net_and_nas()
    elif op.startswith('feat='):
        nas.train_features = op.endswith('1')
    elif op.startswith('rf='):
        nas.train_rf = op.endswith('1')
    elif op.startswith('dil='):
        nas.train_dilation = op.endswith('1')
    elif op.startswith('disc='):
        nas.discrete_cost = op.endswith('1')
    elif op.startswith('temp='):
        nas.update_softmax_options(temperature=float(op.split('=')[1]))
    elif op.startswith('hard='):
        nas.update_softmax_options(hard=op.endswith('1'))
    elif op.startswith('gumbel='):
        nas.update_softmax_options(gumbel=op.endswith('1'))
    elif op.startswith('dis='):
        nas.update_softmax_options(disable_sampling=op.endswith('1'))
    elif op == 'fwdbwd':
        for p in nas.parameters():
            p.grad = None
        torch.manual_seed(77)
        loss = nas(x).sum() + 1e-2 * nas.cost
        if loss.requires_grad:
            loss.backward()
        return True
    else:
        raise ValueError(op)
    return False



def _mismatches(nas, ref, frozen, names, did_bwd, sampled_out):
    """all disagreements between the real model and the reference model in the current state: kind -> detail"""
    out = {}
    case_method = ref.method
    allp = [id(p) for p in nas.parameters()]
    nasp = [id(p) for p in nas.nas_parameters()]
    netp = [id(p) for p in nas.net_parameters()]
    if sorted(nasp + netp) != sorted(allp) or len(set(nasp + netp)) != len(nasp + netp):
        out['not-a-partition'] = f'nas ({len(nasp)}) + net ({len(netp)}) parameters do not partition parameters() ({len(allp)})'
    wrong = [(n, names[n].requires_grad) for n in names if names[n].requires_grad != ref.rg[n]]
    fz = [w[0] for w in wrong if w[0] in frozen]
    if fz:
        out['frozen-mask-trainable'] = f'by-construction-frozen parameters became trainable: {fz[:4]}'
    other = [w for w in wrong if w[0] not in frozen]
    if other:
        out['requires-grad-differs'] = f'requires_grad differs from the reference for {other[:4]} (expected the opposite)'
    if did_bwd:
        # the kind of frozen mask matters: on the pinned tree only the RF / dilation masks of strided convolutions can receive a
        # gradient (finding D10); a frozen FEATURES mask reads a constant buffer and must never get one
        for n in sorted(frozen):
            g = names[n].grad
            if g is not None and float(g.abs().sum()) != 0.0:
                kind = 'frozen-features-mask-gets-gradient' if n.endswith('.alpha') else 'frozen-rf-dilation-mask-gets-gradient'
                out.setdefault(kind, f'{n} received gradient {g.flatten()[:4].tolist()} from loss + cost')
    for n, m, kind in _samplers({'method': case_method}, nas):
        prev, got = _observe_sampler(m, kind, 1234)
        want = _ref_sample(m.alpha.detach(), ref.opts, prev, 1234)
        sampled_out.append(tuple(round(float(v), 5) for v in got.flatten().tolist()))
        if 'sampling-options-differ' not in out and (got.shape != want.shape or not torch.allclose(got, want, atol=1e-6)):
            out['sampling-options-differ'] = (f'{n} samples {got.flatten()[:4].tolist()} but options {ref.opts} imply '
                                              f'{want.flatten()[:4].tolist()}')
    if case_method == 'pit' and bool(nas.discrete_cost) != ref.disc:
        out['discrete-cost-differs'] = f'discrete_cost={nas.discrete_cost}, expected {ref.disc}'
    return out


def run_case(case, seed):
    tier = case.get('tier', 'quick')
    b = bounds(tier)
    method = case['method']
    base_case = {k: v for k, v in case.items() if k != 'history'}
    nontrivial = set()
    evals = [0]
    init_opts = {'temperature': 1.0, 'hard': False, 'gumbel': case['model'] == 'sn_gumbel', 'dis': False}

    def run(hist):
        viol = []

        def add(kind, sig, msg):
            viol.append({'kind': kind, 'sig': sig, 'msg': f'{case["model"]}: history {list(hist)}: {msg}', 'case': dict(base_case, history=list(hist))})

        nas, x = _build(case, seed)
        groups, frozen = _groups_and_frozen(case, nas)
        ref = Ref(method, groups, frozen, init_opts)
        did_bwd = False
        changed = False
        before_last = {}
        try:
            for i, op in enumerate(hist):
                if i == len(hist) - 1:
                    before_last = _mismatches(nas, ref, frozen, dict(nas.named_parameters()), did_bwd, [])
                did_bwd = _apply(nas, x, op, method)
                changed = ref.step(op)
        except Exception as e:
            add('operation-raises', f'operation-raises/{method}/{hist[-1]}', f'{type(e).__name__}: {str(e)[:200]}')
            return {'key': ('raise', hist[-1]), 'violations': viol, 'outcome': 'raises'}
        evals[0] += 1
        if changed:
            nontrivial.add(f'{case["model"]}/' + '.'.join(hist))
        last = hist[-1] if hist else 'init'
        lastk = last.split('=')[0]
        names = dict(nas.named_parameters())
        sampled = []
        now = _mismatches(nas, ref, frozen, names, did_bwd, sampled)
        # only what the LAST operation introduced is reported here (the rest was reported at the shorter history)
        for kind, detail in now.items():
            if kind not in before_last:
                add(kind, f'{kind}/{method}/{lastk}', detail)
        key = (tuple(sorted((n, p.requires_grad) for n, p in names.items())), tuple(sampled),
               bool(getattr(nas, 'discrete_cost', False)), tuple(sorted(ref.opts.items())))
        return {'key': key, 'violations': viol, 'outcome': 'differs' if viol else 'agrees'}

    alpha = _alphabet(method)
    only = tuple(case['history']) if case.get('history') is not None else None
    r = H.bfs(run, lambda h: alpha, b['depth'], only=only, max_states=b['max_states'])
    return {'states': r['states'], 'transitions': r['transitions'], 'evals': evals[0], 'nontrivial': sorted(nontrivial),
            'outcomes': list(r['outcomes']), 'violations': r['violations'],
            'cap': f'max_states {b["max_states"]} reached' if r.get('capped') else None,
            'sample': {'model': case['model'], 'alphabet': alpha, 'closed': r['closed'], 'depth_reached': r['depth_reached'],
                       'executions': r['executions'], 'histories_reaching_new_states': r.get('sample_histories')}}
