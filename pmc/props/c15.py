"""C15 - cost-function lookup depends on the layer, not on registration order.

History explorer (explicit-state BFS) over registration histories of a real `CostSpec`.
A state is the *ordered* history (order is exactly what the implementation could depend on, so
states are not merged by the set of patterns); after every transition (one registration, replayed
on a freshly constructed CostSpec) every layer spec of the truth-table of the constraints is looked
up and compared with the reference model below; in addition the answers of all states that hold the
same *set* of patterns are compared with each other (order independence).
"""
import itertools

import torch
import torch.nn as nn

PID = 'C15'
RULE = ('BFS over all ordered registration histories without repetition of up to N patterns per layer type '
        '(unconstrained, depthwise, kernel-3, user constraints) x both default behaviours, optionally interleaved with '
        'registrations for another layer type; in every state every layer spec from the truth table of the constraints '
        '(+ an unregistered layer type) is looked up on the real CostSpec and compared with the reference rule; '
        'non-trivial = a (history, spec) pair with at least one registered pattern of the looked-up type')
ASSUMPTIONS = ['constraints are pure predicates of the spec', 'every history is run twice: lookups only at the end, and lookups interleaved after every registration', 'cost functions are compared by the value they return (each is a distinct constant)',
               'duplicate registrations of the same pattern are outside the statement and not generated']


def _mk_fn(tag):
    def fn(spec):
        return tag
    fn.__name__ = f'fn_{tag}'
    return fn


def _patterns(ltype):
    from plinio.cost.pattern import conv_dw_constraint, conv_3_constraint
    if ltype == 'linear':
        # Linear has no built-in constraints: use user constraints only
        def big_out(spec):
            return spec['out_features'] >= 8

        def big_in(spec):
            return spec['in_features'] >= 8

        def odd_in(spec):
            return spec['in_features'] % 2 == 1

        def bias(spec):
            return spec['has_bias']

        def nobias(spec):
            return spec['_parameters']['bias'] is None
        return {'U': None, 'A': big_out, 'B': big_in, 'C': odd_in, 'E': bias, 'F': nobias}

    def big_out(spec):
        return spec['out_channels'] >= 8

    def strided(spec):
        return any(s > 1 for s in spec['stride'])

    def nobias(spec):
        # reads a non-scalar entry of the spec, exactly as it appears in vars(layer)
        return spec['_parameters']['bias'] is None
    return {'U': None, 'A': conv_dw_constraint, 'B': conv_3_constraint, 'C': big_out, 'E': strided, 'F': nobias}


_W, _B = torch.zeros(1), torch.zeros(1)     # stand-ins for the parameter tensors of vars(layer)['_parameters']


def _specs(ltype, names):
    """all truth assignments of the constraints named in `names` (minus 'U')"""
    out = []
    cn = [n for n in names if n != 'U']
    for bits in itertools.product([False, True], repeat=len(cn)):
        t = dict(zip(cn, bits))
        if ltype == 'linear':
            spec = {'out_features': 8 if t.get('A') else 4,
                    'in_features': (9 if t.get('C') else 8) if t.get('B') else (3 if t.get('C') else 4),
                    'has_bias': bool(t.get('E')),
                    '_parameters': {'weight': _W, 'bias': None if t.get('F') else _B}}
        else:
            d = 1 if ltype == 'conv1d' else 2
            if t.get('A'):  # depthwise
                c = 8 if t.get('C') else 4
                cin = cout = g = c
            else:
                cout = 8 if t.get('C') else 4
                cin, g = 6, 1
            spec = {'in_channels': cin, 'out_channels': cout, 'groups': g,
                    'kernel_size': (3,) * d if t.get('B') else (5,) * d,
                    'stride': (2,) * d if t.get('E') else (1,) * d,
                    '_parameters': {'weight': _W, 'bias': None if t.get('F') else _B}}
        out.append((t, spec))
    return out


class UserConv2d(nn.Conv2d):
    """a user layer type deriving from nn.Conv2d (looked up under its own type; its PARENT's patterns live in the same spec)"""


_T = {'conv1d': nn.Conv1d, 'conv2d': nn.Conv2d, 'linear': nn.Linear, 'subconv2d': UserConv2d}


def cases(tier, seed):
    npat = 4 if tier == 'quick' else 5
    out = []
    for ltype in ('conv2d', 'conv1d', 'linear'):
        for default in ('zero', 'fail'):
            for foreign in ((False,) if tier == 'quick' else (False, True)):
                out.append({'ltype': ltype, 'default': default, 'npat': npat, 'foreign': foreign})
            # a user constraint over a non-scalar field of the spec (layers that differ only there are looked up on the same CostSpec)
            out.append({'ltype': ltype, 'default': default, 'npat': npat, 'foreign': False, 'names': ['U', 'A', 'F', 'C', 'B'][:npat]})
            # one constrained pattern registered with the very function object that is the specification's default ("such layers are free" /
            # "such layers are not supported"): it is still the function of the constrained pattern the layer satisfies
            for dp in (('A', 'C') if tier == 'quick' else ('A', 'B', 'C', 'F')):
                out.append({'ltype': ltype, 'default': default, 'npat': npat, 'foreign': False, 'names': ['U', 'A', 'F', 'C', 'B'][:npat], 'dflt_fn': dp})
    # a user sub-class of nn.Conv2d, with registrations for its parent type interleaved (the parent is the "foreign" type)
    for default in ('zero', 'fail'):
        out.append({'ltype': 'subconv2d', 'default': default, 'npat': 3 if tier == 'quick' else 4, 'foreign': True})
    return out


def bounds(tier):
    return {'patterns_per_type': 4 if tier == 'quick' else 5, 'history_depth': 4 if tier == 'quick' else 5,
            'layer_types': 3, 'defaults': 2, 'foreign_type_interleaving': tier != 'quick'}


def _lookup(cs, T, spec):
    try:
        fn = cs[(T, spec)]
    except KeyError as e:
        return ('raise', 'conflict' if 'conflict' in str(e).lower() else 'keyerror')
    try:
        v = fn(spec)
    except KeyError:
        return ('default', 'fail')
    if isinstance(v, str):
        return ('fn', v)
    return ('default', 'zero' if float(v) == 0.0 else f'value:{float(v)}')


def _ref(history, pats, spec, default, dflt_fn=None):
    matching = [p for p in history if pats[p] is not None and pats[p](spec)]
    if len(matching) == 1:
        if matching[0] == dflt_fn:
            return ('default', default)     # the function registered for that pattern IS the default function
        return ('fn', matching[0])
    if len(matching) == 0:
        if 'U' in history:
            return ('fn', 'U')
        return ('default', default)
    return ('raise', 'conflict')


def _build(ltype, default, history, foreign, probe=None, dflt_fn=None):
    """fresh real CostSpec with the history replayed on it; with `probe` (a list of specs) every spec is looked up on the SAME object
    after every registration, i.e. lookups are interleaved with registrations"""
    from plinio.cost import CostSpec
    pats = _patterns(ltype)
    cs = CostSpec(shared=True, default_behavior=default)
    T = _T[ltype]
    other = nn.Conv2d if ltype == 'subconv2d' else nn.Conv1d if ltype != 'conv1d' else nn.Conv2d
    for i, p in enumerate(history):
        if foreign:
            # interleave registrations for an unrelated layer type (always-true constraint and unconstrained)
            cs[(other, (lambda s: True) if i % 2 == 0 else None)] = _mk_fn(f'foreign{i}')
        cs[(T, pats[p])] = cs.default if p == dflt_fn else _mk_fn(p)
        if probe is not None:
            for _, spec in probe:
                _lookup(cs, T, spec)
            _lookup(cs, nn.ConvTranspose2d, probe[0][1])
    return cs, pats, T


def run_case(case, seed):
    ltype, default, npat, foreign = case['ltype'], case['default'], case['npat'], case.get('foreign', False)
    names = case.get('names') or ['U', 'A', 'B', 'C', 'E'][:npat]
    dflt_fn = case.get('dflt_fn')
    only = None                      # replay: restrict the BFS to the prefixes of the recorded histories
    if case.get('history') is not None:
        only = [tuple(case['history'])] + ([tuple(case['other'])] if case.get('other') else [])
    specs = _specs(ltype, names)
    states = transitions = evals = 0
    nontrivial = set()
    outcomes = set()
    viols = []
    by_set = {}
    # BFS: depth d states are all ordered selections of d distinct patterns
    frontier = [()]
    depth = 0
    seen = set()
    while frontier:
        nxt = []
        for hist in frontier:
            if only is not None and not any(o[:len(hist)] == hist for o in only):
                continue
            seen.add(hist)
            states += 1
            cs, pats, T = _build(ltype, default, hist, foreign, dflt_fn=dflt_fn)
            # the same history with lookups interleaved after every registration (the answer must not depend on earlier lookups)
            cs2, _, _ = _build(ltype, default, hist, foreign, probe=specs, dflt_fn=dflt_fn)
            transitions += len(hist) * (2 if foreign else 1) * 2
            answers = []
            for si, (t, spec) in enumerate(specs):
                got = _lookup(cs, T, spec)
                exp = _ref(hist, pats, spec, default, dflt_fn)
                evals += 2
                got2 = _lookup(cs2, T, spec)
                if got2 != got:
                    viols.append({'kind': 'lookup-depends-on-earlier-lookups', 'sig': 'lookup-depends-on-earlier-lookups',
                                  'msg': f'{ltype} default={default} history={list(hist)} spec={spec}: {got} on a spec that was never queried before, '
                                         f'{got2} when every spec was also looked up after each registration',
                                  'case': dict(case, history=list(hist))})
                outcomes.add(f'{got[0]}:{got[1] if got[0] != "fn" else ("U" if got[1] == "U" else "constrained")}')
                if hist:
                    nontrivial.add(f'{ltype}/{default}/{foreign}/{"".join(names)}/{dflt_fn}/{"".join(hist)}/{si}')
                answers.append(got)
                if got != exp:
                    matching = [p for p in hist if pats[p] is not None and pats[p](spec)]
                    if got == ('raise', 'conflict') and len(matching) == 1 and 'U' in hist \
                            and hist.index(matching[0]) < hist.index('U'):
                        sig = 'spurious-conflict/constrained-registered-before-unconstrained'
                    elif got[0] == 'raise' and len(matching) < 2:
                        sig = 'spurious-conflict/other'
                    elif exp[0] == 'raise':
                        sig = 'missing-conflict-error'
                    else:
                        sig = f'wrong-function/{got[0]}-instead-of-{exp[0]}'
                    viols.append({'kind': 'lookup-differs-from-rule', 'sig': sig,
                                  'msg': f'{ltype} default={default} history={list(hist)} spec={spec} truth={t}: '
                                         f'lookup gave {got}, rule says {exp}',
                                  'case': dict(case, history=list(hist))})
            # an unregistered type always gets the default
            got = _lookup(cs, nn.ConvTranspose2d, specs[0][1])
            evals += 1
            if got != ('default', default):
                viols.append({'kind': 'unregistered-type', 'sig': 'unregistered-type-not-default',
                              'msg': f'history={list(hist)}: unregistered layer type gave {got}',
                              'case': dict(case, history=list(hist))})
            key = frozenset(hist)
            if key in by_set and by_set[key][1] != answers:
                viols.append({'kind': 'order-dependent', 'sig': 'order-dependent-answer',
                              'msg': f'{ltype} default={default}: histories {list(by_set[key][0])} and {list(hist)} '
                                     f'register the same patterns but answer differently',
                              'case': dict(case, history=list(hist), other=list(by_set[key][0]))})
            by_set.setdefault(key, (hist, answers))
            if len(hist) < len(names):
                for p in names:
                    if p not in hist:
                        nxt.append(hist + (p,))
        frontier = nxt
        depth += 1
    return {'states': states, 'transitions': transitions, 'evals': evals, 'nontrivial': sorted(nontrivial),
            'outcomes': sorted(outcomes), 'violations': viols,
            'sample': {'ltype': ltype, 'default': default, 'history': ['A', 'U', 'B'][:npat],
                       'spec': specs[-1][1], 'depth_reached': depth - 1}}
