"""C08 - no setting of the architectural parameters can search a layer out of existence.

Configuration-lattice explorer with SEVERAL REPRESENTATIVES per abstract value (A1): every searchable mask
parameter vector is driven (a) to every combination of uniform raw values from
{0, -0.3, 0.2, 0.49, 0.51, -2.5, 1e30} per masker kind (features / receptive field / dilation) - this contains
every combination "fully pruned vs open" of the three masks - and (b) to every abstract configuration within
one deviation of "all open" plus the all-minimum corners, each realised with 4 different value representatives.
Kernel family K with k in 1..12 and grammar programs incl. input- and output-connected layers, plus three
two-input networks in which a width group is tied to ONE of the inputs only.
"""
import itertools

import torch

from .. import pitdrv as D
from ..grammar import pit as G

PID = 'C08'
REPS = [0.0, -0.3, 0.2, 0.49, 0.51, -2.5, 1e30]
REPS_SMALL = [0.0, 0.49, 0.51, -2.5]   # grammar programs in the quick tier (family K always gets all 7)
RULE = ('programs: family K (Conv1d k in 1..12, d in 1..2, s in 1..2, BN on/off, causal and "same" padding) and G_pit up to the depth bound '
        '+ single-option deviations; configurations: (a) all 7^3 combinations of uniform raw values ' + str(REPS) +
        ' for (alpha, beta, gamma) of every non-frozen masker, (b) all abstract configurations within 1 deviation + corners x 4 value '
        'representatives; oracle: summary sizes >= 1, input/output-tied layers full width, export() succeeds, runs on the original input '
        'shape, returns the original output shape, exported sizes == summary(); non-trivial = a configuration in which at least one mask '
        'vector is entirely at a "pruned" value; every program is explored under one of four usage protocols (plain / train_net_only() first / '
        'whole observation under no_grad with an extra summary() read after each export / train switches off first), rotating over the programs '
        '(thorough: all four on the one-stage G_pit programs and on K with k <= 4)')
ASSUMPTIONS = ['receptive-field / dilation parameters are driven only on Conv1d layers padded as the PIT README prescribes (ConstantPad1d + valid, or padding="same")',
               'feature-mask parameters of frozen maskers ARE driven in the uniform-value sweep (they must have no effect); frozen RF / dilation parameters are not',
               'NaN / inf parameter values are not generated']


def bounds(tier):
    return {'quick': {'K_kmax': 12, 'G_depth': 2, 'uniform_value_combos': '343 (K with k <= 4 or k = 12) / 64 (other K, G)', 'abstract_deviation_bound': 1, 'representatives': 4},
            'thorough': {'K_kmax': 12, 'G_depth': 3, 'uniform_value_combos': '343 (K) / 64 (G)', 'abstract_deviation_bound': 2, 'representatives': 4}}[tier]


def cases(tier, seed):
    out = []
    for k in range(1, 13):
        for d in (1, 2):
            for s in (1, 2):
                for bn in (False, True):
                    for pad in ('causal', 'same', 'causalv'):
                        if pad == 'same' and (s == 2 or (tier == 'quick' and d == 2)):
                            continue
                        if pad == 'causalv' and tier == 'quick' and (d == 2 or s == 2 or bn or k not in (2, 3, 4, 7, 12)):
                            continue
                        if tier == 'quick' and d == 2 and k not in (2, 3, 4, 8):
                            continue
                        if tier == 'quick' and bn and k not in (1, 2, 4, 7, 12):
                            continue
                        p = {'dim': 1, 'cin': 2, 'size': 8, 'family': 'K',
                             'stages': [{'op': 'conv', 'cout': 2, 'k': 2},
                                        {'op': 'conv', 'cout': 3, 'k': k, 'd': d, 's': s, 'bn': bn, 'pad': pad}],
                             'head': {'kind': 'flatlin', 'out': 2}}
                        out.append({'prog': p, 'fold_bn': False})
                        if bn and k in (1, 4, 12):
                            out.append({'prog': p, 'fold_bn': True})
    progs = list(G.gen_base(2 if tier == 'quick' else 3))
    for p in G.gen_base(1):
        progs += [q for q in G.option_deviations(p) if tier == 'thorough' or q['dim'] == 1 or q['head']['kind'] == 'flatlin']
    if tier == 'thorough':
        # option deviations on the depth-2 programs of the 1D grammar with the flatten head (the time-mask machinery is 1D only)
        progs += [q for p in G.gen_base(2, dims=(1,)) if len(p['stages']) == 2 and p['head']['kind'] == 'flatlin' for q in G.option_deviations(p)]
    progs += G.gen_special()
    for p in progs:
        if G.structure_flags(p):
            continue
        out.append({'prog': p, 'fold_bn': False})
    for m in TWOIN:
        out.append({'kind': 'twoin', 'model': m})
    # usage protocol around the parameter writes (none of them may matter for the sizes): 0 = plain; 1 = train_net_only() called first
    # (every mask has requires_grad False at summary / export time); 2 = the whole observation under no_grad in eval mode with an extra
    # summary() read after each export (an evaluation loop); 3 = train_features / train_rf / train_dilation switched off first
    n = 0
    for c in out:
        c['tier'] = tier
        if c.get('kind') != 'twoin':
            c['proto'] = n % len(PROTOS)
            n += 1
    if tier == 'thorough':
        extra = [dict(c, proto=(c['proto'] + j) % len(PROTOS)) for c in out if c.get('kind') != 'twoin'
                 and ((c['prog'].get('family') == 'K' and c['prog']['stages'][-1]['k'] <= 4)
                      or (c['prog'].get('family') != 'K' and len(c['prog']['stages']) <= 1)) for j in (1, 2, 3)]
        out += extra
    return out


PROTOS = ['plain', 'train_net_only-first', 'no_grad-eval-loop', 'train-switches-off-first']


# ----------------------------------------------------------------------------------------------
# networks with TWO inputs: width groups tied to ONE of the inputs only
# ----------------------------------------------------------------------------------------------
class _TwoInAdd(torch.nn.Module):
    """relu(c1(a) + b): the width of c1 is fixed by input b (and by nothing else)"""
    full = {'c1', 'fc'}

    def __init__(self):
        super().__init__()
        nn = torch.nn
        self.c1 = nn.Conv1d(3, 4, 3, padding='same')
        self.c2 = nn.Conv1d(4, 3, 3, padding='same')
        self.fc = nn.Linear(3 * 8, 2)

    def forward(self, a, b):
        y = torch.relu(self.c1(a) + b)
        return self.fc(torch.flatten(torch.relu(self.c2(y)), 1))

    @staticmethod
    def inputs(g):
        return torch.randn(3, 3, 8, generator=g), torch.randn(3, 4, 8, generator=g)


class _TwoInDw(torch.nn.Module):
    """cat(relu(dw(a)), relu(cb(b))): the depthwise conv sits directly on input a; cb is free"""
    full = {'dw', 'fc'}

    def __init__(self):
        super().__init__()
        nn = torch.nn
        self.dw = nn.Conv1d(3, 3, 3, padding='same', groups=3)
        self.cb = nn.Conv1d(2, 4, 3, padding='same')
        self.c2 = nn.Conv1d(7, 3, 1)
        self.fc = nn.Linear(3 * 8, 2)

    def forward(self, a, b):
        y = torch.cat([torch.relu(self.dw(a)), torch.relu(self.cb(b))], dim=1)
        return self.fc(torch.flatten(torch.relu(self.c2(y)), 1))

    @staticmethod
    def inputs(g):
        return torch.randn(3, 3, 8, generator=g), torch.randn(3, 2, 8, generator=g)


class _TwoInFree(torch.nn.Module):
    """relu(c1(a) + c2(b)): one shared, free width group fed by both inputs"""
    full = {'fc'}

    def __init__(self):
        super().__init__()
        nn = torch.nn
        self.c1 = nn.Conv1d(3, 4, 3, padding='same')
        self.c2 = nn.Conv1d(2, 4, 3, padding='same')
        self.c3 = nn.Conv1d(4, 3, 3, padding='same')
        self.fc = nn.Linear(3 * 8, 2)

    def forward(self, a, b):
        y = torch.relu(self.c1(a) + self.c2(b))
        return self.fc(torch.flatten(torch.relu(self.c3(y)), 1))

    @staticmethod
    def inputs(g):
        return torch.randn(3, 3, 8, generator=g), torch.randn(3, 2, 8, generator=g)


TWOIN = {'add': _TwoInAdd, 'dw': _TwoInDw, 'free': _TwoInFree}


# ----------------------------------------------------------------------------------------------
# networks whose OUTPUT is not produced by a single layer: the layers whose channels reach an output unchanged must keep their width
# ----------------------------------------------------------------------------------------------
def _mk_out(dim, kind):
    nn = torch.nn
    Conv = nn.Conv1d if dim == 1 else nn.Conv2d
    Pool = nn.MaxPool1d if dim == 1 else nn.MaxPool2d
    sz = (8,) if dim == 1 else (6, 6)

    class _Out(torch.nn.Module):
        def __init__(self):
            super().__init__()
            self.c0 = Conv(3, 4, 3, padding='same')          # hidden, prunable (keeps the exploration non-vacuous)
            self.c1 = Conv(4, 3, 3, padding='same')
            self.c2 = Conv(4, 2, 1)
            self.c3 = Conv(4, 3, 3, padding='same')
            self.pool = Pool(3, stride=1, padding=1)

        def forward(self, x):
            h = torch.relu(self.c0(x))
            if kind == 'cat':
                return torch.cat([self.c1(h), self.c2(h)], dim=1)
            if kind == 'cat-post':
                return torch.relu(torch.cat([torch.relu(self.c1(h)), self.pool(self.c2(h))], 1))
            if kind == 'cat-nested':
                return torch.cat([torch.cat([self.c1(h), self.c2(h)], dim=1), self.c3(h)], dim=-2 if dim == 1 else -3)
            if kind == 'cat-flat':
                return torch.flatten(torch.cat((self.c1(h), self.c2(h)), 1), 1)
            if kind == 'cat-with-hidden':
                # the hidden tensor itself is part of the output: c0 must keep its width too
                return torch.cat([h, self.c2(h)], 1)
            if kind == 'tuple':
                return self.c1(h), self.c2(h)
            if kind == 'tuple-cat':
                return torch.cat([self.c1(h), self.c2(h)], 1), self.c3(h)
            raise ValueError(kind)

        @staticmethod
        def inputs(g):
            return (torch.randn(3, 3, *sz, generator=g),)
    _Out.__doc__ = f'{dim}D, output structure "{kind}" over c1 / c2 / c3 applied to h = relu(c0(x))'
    _Out.full = {'cat': {'c1', 'c2'}, 'cat-post': {'c1', 'c2'}, 'cat-nested': {'c1', 'c2', 'c3'}, 'cat-flat': {'c1', 'c2'},
                 'cat-with-hidden': {'c0', 'c2'}, 'tuple': {'c1', 'c2'}, 'tuple-cat': {'c1', 'c2', 'c3'}}[kind]
    return _Out


OUT_KINDS = ['cat', 'cat-post', 'cat-nested', 'cat-flat', 'cat-with-hidden', 'tuple', 'tuple-cat']
for _d in (1, 2):
    for _k in OUT_KINDS:
        TWOIN[f'out{_d}d-{_k}'] = _mk_out(_d, _k)


class _Star:
    """calls a two-input network on a tuple (so that the one-input oracle code can be re-used)"""
    def __init__(self, net):
        self.net = net

    def __call__(self, xs):
        return self.net(*xs)


def _run_twoin(case, seed):
    from plinio.methods import PIT
    res = {'states': 0, 'transitions': 0, 'evals': 0, 'nontrivial': [], 'outcomes': set(), 'violations': []}
    base_case = {k: v for k, v in case.items() if k != 'only'}
    cls = TWOIN[case['model']]
    torch.manual_seed(seed * 7 + 3)
    model = cls().eval()
    xs = cls.inputs(torch.Generator().manual_seed(seed + 11))
    with torch.no_grad():
        y0 = model(*xs)
    ssig = ('two-in-' if not case['model'].startswith('out') else 'hand-') + case['model']
    try:
        pit = PIT(model, input_example=tuple(t[:1] for t in xs) if len(xs) > 1 else xs[0][:1])
    except Exception as e:
        res.update(states=1, evals=1, outcomes=['conversion-raises'])
        res['violations'].append({'kind': 'conversion-raises', 'sig': 'conversion-raises/' + ssig, 'msg': f'PIT() raised {type(e).__name__}: {e}', 'case': base_case})
        return res
    pit.eval()
    fms, _ = _raw_handles(pit)
    only = case.get('only')
    labels = [{'uniform': v} for v in REPS]
    for i in range(len(fms)):
        for v in REPS_SMALL:
            for u in (1.0, 0.0):
                labels.append({'masker': i, 'value': v, 'others': u})

    for label in labels:
        if only is not None and only != label:
            continue
        with torch.no_grad():
            for i, fm in enumerate(fms):
                if 'uniform' in label:
                    fm.alpha.fill_(label['uniform'])
                else:
                    fm.alpha.fill_(label['value'] if i == label['masker'] else label['others'])
        res['states'] += 1
        res['transitions'] += 1
        res['evals'] += 1
        bad = _check_state(pit, None, xs, y0, cls.full, star=True)
        for kind, msg in bad:
            res['outcomes'].add(kind)
            res['violations'].append({'kind': kind, 'sig': f'{kind}/' + ssig, 'msg': f'{label}: {msg}', 'case': dict(base_case, only=label)})
        if not bad:
            res['outcomes'].add('alive')
        v = label.get('uniform', label.get('value'))
        if abs(v) <= 0.5:
            res['nontrivial'].append(f'{ssig}/{sorted(label.items())}')
    res['outcomes'] = sorted(res['outcomes'])
    res['sample'] = {'model': case['model'], 'doc': cls.__doc__, 'feature_maskers': len(fms), 'full_width_layers': sorted(cls.full), 'labels': len(labels)}
    return res


def _raw_handles(pit):
    from plinio.methods.pit.nn.features_masker import PITFeaturesMasker
    from plinio.methods.pit.nn.timestep_masker import PITFrozenTimestepMasker
    from plinio.methods.pit.nn.conv1d import PITConv1d
    fms, tms, seen = [], [], set()
    for name, layer in D.pit_layers(pit):
        fm = layer.out_features_masker
        # frozen FEATURES maskers are driven as well: their alpha is an architectural parameter the model reports, and whatever
        # value it takes the layer must keep its full width (RF / dilation parameters of frozen maskers are not driven)
        if id(fm) not in seen and isinstance(fm, PITFeaturesMasker):
            seen.add(id(fm))
            fms.append(fm)
        if isinstance(layer, PITConv1d) and not isinstance(layer.timestep_masker, PITFrozenTimestepMasker):
            if D._is_causal(pit, name) or layer.padding == 'same':
                tms.append(layer)
    return fms, tms


def _shapes(y):
    return tuple(tuple(t.shape) for t in y) if isinstance(y, (tuple, list)) else tuple(y.shape)


def _check_state(pit, prog, x, y0, full, star=False, nograd=False):
    """-> list of (kind, msg)"""
    if nograd:
        with torch.no_grad():
            bad = _check_state(pit, prog, x, y0, full, star)
            try:
                pit.summary()         # one more read after the export, as an evaluation loop would do; the next state starts from here
            except Exception:
                pass
        return bad
    bad = []
    try:
        summ = pit.summary()
    except Exception as e:
        return [('summary-raises', f'{type(e).__name__}: {str(e)[:200]}')]
    for name, layer in D.pit_layers(pit):
        s = summ[name]
        if s['out_features'] < 1 or s['in_features'] < 1:
            bad.append(('empty-layer', f'{name}: summary {s}'))
        if 'kernel_size' in s and (s['kernel_size'][0] < 1 or s['dilation'][0] < 1):
            bad.append(('empty-kernel', f'{name}: summary {s}'))
        if name in full:
            n = layer.out_channels if hasattr(layer, 'out_channels') else layer.out_features
            if s['out_features'] != n:
                bad.append(('io-tied-layer-pruned', f'{name}: width fixed by network input/output is {n} but summary says {s["out_features"]}'))
    try:
        with torch.no_grad():
            exp = pit.export()
            exp.eval()
    except Exception as e:
        bad.append(('export-raises', f'{type(e).__name__}: {str(e)[:200]}'))
        return bad
    try:
        with torch.no_grad():
            y = exp(*x) if star else exp(x)
        if _shapes(y) != _shapes(y0):
            bad.append(('output-shape-changed', f'exported network returns {_shapes(y)}, original {_shapes(y0)}'))
    except Exception as e:
        bad.append(('exported-net-does-not-run', f'{type(e).__name__}: {str(e)[:200]}'))
    # the summary read BEFORE the export and the one read after it must both describe the exported network
    sc = D.struct_check(pit, exp, prog, summ=summ)
    if sc:
        bad.append(('exported-sizes-differ-from-summary', 'summary() read before export(): ' + '; '.join(sc[:3])))
    else:
        sc = D.struct_check(pit, exp, prog)
        if sc:
            bad.append(('exported-sizes-differ-from-summary', 'summary() read after export(): ' + '; '.join(sc[:3])))
    return bad


def run_case(case, seed):
    if case.get('kind') == 'twoin':
        return _run_twoin(case, seed)
    prog, fold = case['prog'], case['fold_bn']
    tier = case.get('tier', 'quick')
    b = bounds(tier)
    res = {'states': 0, 'transitions': 0, 'evals': 0, 'nontrivial': [], 'outcomes': set(), 'violations': []}
    base_case = {'prog': prog, 'fold_bn': fold, 'tier': tier}
    ctx = D.make_pit(prog, seed, fold_bn=fold)
    ssig = _shape_sig(prog, fold)
    if 'error' in ctx:
        res.update(states=1, evals=1, outcomes=['conversion-raises'])
        res['violations'].append({'kind': 'conversion-raises', 'sig': 'conversion-raises/' + ssig,
                                  'msg': f'PIT() raised {type(ctx["error"]).__name__}: {ctx["error"]}', 'case': base_case})
        return res
    pit, x, y0 = ctx['pit'], ctx['x'], ctx['y0']
    proto = PROTOS[case.get('proto', 0)]
    base_case['proto'] = case.get('proto', 0)
    if proto == 'train_net_only-first':
        pit.train_net_only()
    elif proto == 'train-switches-off-first':
        pit.train_features = False
        pit.train_rf = False
        pit.train_dilation = False
    pit.eval()
    full = G.must_be_full(prog)
    fms, tms = _raw_handles(pit)
    els = D.elements(pit, prog, allow_same=True)

    def visit(label, nontriv):
        res['states'] += 1
        res['evals'] += 1
        for kind, msg in _check_state(pit, prog, x, y0, full, nograd=(proto == 'no_grad-eval-loop')):
            res['outcomes'].add(kind)
            res['violations'].append({'kind': kind, 'sig': f'{kind}/' + ssig + ('' if proto == 'plain' else '/' + proto), 'msg': f'{label} [{proto}]: {msg}',
                                      'case': dict(base_case, only=label)})
        else:
            res['outcomes'].add('alive')
        if nontriv:
            res['nontrivial'].append(_key(prog, fold, label))

    only = case.get('only')
    # (a) uniform raw values
    kk = prog['stages'][-1].get('k', 3) if prog.get('family') == 'K' else None
    reps = REPS if (kk is not None and (tier == 'thorough' or kk <= 4 or kk == 12)) else REPS_SMALL
    combos = itertools.product(reps, reps if tms else [None], reps if tms else [None])
    for va, vb, vg in combos:
        label = {'uniform': [va, vb, vg]}
        if only is not None and only != label:
            continue
        with torch.no_grad():
            for fm in fms:
                fm.alpha.fill_(va)
            for layer in tms:
                layer.timestep_masker.beta.fill_(vb)
                layer.dilation_masker.gamma.fill_(vg)
        res['transitions'] += 1
        visit(label, abs(va) <= 0.5 or (vb is not None and (abs(vb) <= 0.5 or abs(vg) <= 0.5)))
    # (b) abstract lattice x representatives
    cfgs, complete = D.enum_configs(els, b['abstract_deviation_bound'], 0)
    for cfg in cfgs:
        for rep in range(b['representatives'] if prog.get('family') == 'K' else 2):
            label = {'cfg': D.describe(els, cfg), 'rep': rep}
            if only is not None and only != label:
                continue
            D.apply_config(els, cfg, rep=rep)
            res['transitions'] += len(cfg)
            visit(label, bool(cfg))
    res['outcomes'] = sorted(res['outcomes'])
    res['sample'] = {'prog': prog, 'protocol': proto, 'uniform_values': REPS, 'n_abstract_cfgs': len(cfgs), 'full_width_layers': sorted(full),
                     'searchable_feature_maskers': len(fms), 'time_searchable_convs': len(tms)}
    return res


def _key(prog, fold, label):
    import hashlib
    import json
    return hashlib.sha1(json.dumps([prog, fold, label], sort_keys=True).encode()).hexdigest()[:16]


def _shape_sig(prog, fold):
    ops = '+'.join(sorted({s['op'] + ('-dw' if s.get('dw') else '') for s in prog['stages']}))
    return f"{prog['dim']}d/{ops}/{prog['head']['kind']}/fold={int(fold)}"
