"""C20 - precision refinement only promotes channels and never raises the cost.

(A) exhaustive input enumeration for the reassignment step `_reassign_precisions(best, scores)`: ALL score matrices P x C whose
    entries are a permutation of 0..PC-1 (every joint ordering of the scores) for the small sizes, and for every matrix ALL
    compositions of C into P target counts; beyond that (up to 4 x 8) the row-order x column-arg-max classes within 2
    transpositions of a sorted matrix.  Oracle: every channel gets exactly one precision and every target count is met.
(B) model level: per-channel MPS networks (3x3 / 1x1 convolutions and a linear layer, 8-bit activations, {'ne16': ne16_latency}),
    EVERY per-channel arg-max assignment of one layer at a time over precisions (2,4,8) and (0,2,4,8); after
    optimize_prec_assignment: per channel new bits >= old bits, every channel has exactly one precision, the per-precision counts
    equal the configuration the refinement settled on (re-derived by an independent search over the same moves with the model's own
    get_cost), and get_cost('ne16') after <= before.
"""
import itertools
import io
import contextlib

import torch

from ..grammar import net2d as G2
from ..grammar import mps as GM
from .c10 import _reps

PID = 'C20'
RULE = ('(A) all permutation score matrices for (P,C) in {2x2, 2x3, 3x2} (quick) + 2x4, 4x2, 3x3 (thorough) x all compositions of C into P targets; '
        'for 3x4 (single and double transpositions), 4x4, 4x8 (single transpositions) of the sorted / reversed matrix x all compositions; (B) per-channel MPS models x every per-channel arg-max '
        'assignment of one layer (<= 4 channels) x precision sets (2,4,8), (0,2,4,8), (8,2,4); non-trivial = an input in which at least one channel must move')
ASSUMPTIONS = ['score matrices are tie-free (the statement quantifies over score matrices; ties are broken arbitrarily by arg-sort)',
               'model level uses 8-bit activations as the NE16 model requires']


def bounds(tier):
    return {'quick': {'exhaustive_sizes': ['2x2', '2x3', '3x2'], 'deviation_sizes': ['3x4', '4x4', '4x8'], 'model_channels': 3},
            'thorough': {'exhaustive_sizes': ['2x2', '2x3', '3x2', '2x4', '4x2', '3x3'], 'deviation_sizes': ['3x4', '4x4', '4x8'], 'model_channels': 4}}[tier]


def _compositions(n, k):
    if k == 1:
        yield (n,)
        return
    for i in range(n + 1):
        for rest in _compositions(n - i, k - 1):
            yield (i,) + rest


def cases(tier, seed):
    out = []
    sizes = [(2, 2), (2, 3), (3, 2)] + ([(2, 4), (4, 2), (3, 3)] if tier == 'thorough' else [])
    for P, C in sizes:
        n = P * C
        # shard by the position of the largest score
        for first in range(n):
            out.append({'fam': 'A', 'P': P, 'C': C, 'first': first, 'tier': tier})
    for P, C in ((3, 4), (4, 4), (4, 8)):
        out.append({'fam': 'A-dev', 'P': P, 'C': C, 'tier': tier})
    # score rows with EQUAL values (ties at the cut): every 0/1 one-hot-column matrix - what the refinement itself writes back as alpha -
    # and every matrix with entries in {0, 1, 2}, x all compositions
    for P, C in ((2, 2), (2, 3), (3, 3), (2, 4), (3, 4)) + (((4, 4),) if tier == 'thorough' else ()):
        out.append({'fam': 'A-ties', 'P': P, 'C': C, 'tier': tier})
    progs = [
        {'cin': 3, 'size': 6, 'stages': [{'op': 'conv', 'cout': 3}], 'head': 'flatlin'},
        {'cin': 3, 'size': 6, 'stages': [{'op': 'conv', 'cout': 3}, {'op': 'conv', 'cout': 3, 'k': 1}], 'head': 'gaplin'},
        {'cin': 3, 'size': 6, 'stages': [{'op': 'conv', 'cout': 4 if tier == 'thorough' else 3, 'k': 1}, {'op': 'pool'}], 'head': 'linlin'},
    ]
    for p in progs:
        for w in ((2, 4, 8), (0, 2, 4, 8), (8, 2, 4)):
            out.append({'fam': 'B', 'prog': p, 'w': list(w), 'tier': tier})
    # wide layers: the refinement only depends on the per-precision channel COUNTS (and, for the reassignment, on the scores), so the
    # lattice here is the set of count compositions in steps of `step` channels (NE16 tiles of 32 output channels are crossed)
    for cout, step, w in ((64, 8, (2, 4, 8)), (40, 8, (2, 4, 8)), (12, 3, (2, 4, 8)), (32, 8, (0, 2, 4, 8)), (48, 12, (2, 3, 4, 8)),
                          # precision tuples that are NOT in ascending order (finding D36 was exactly there)
                          (40, 8, (8, 2)), (40, 8, (8, 4, 2)), (40, 8, (4, 8, 2)), (32, 8, (8, 0, 2))):
        if tier == 'quick' and cout == 48:
            continue
        for k in (3, 1):
            out.append({'fam': 'B-wide', 'cout': cout, 'step': step, 'k': k, 'w': list(w), 'tier': tier})
    # the refinement called on a model still in training mode with Gumbel sampling; interleaved channel order
    for cout, w in ((40, (2, 4, 8)), (32, (0, 2, 4, 8))):
        out.append({'fam': 'B-wide', 'cout': cout, 'step': 8, 'k': 3, 'w': list(w), 'mode': 'train-gumbel', 'tier': tier})
        out.append({'fam': 'B-wide', 'cout': cout, 'step': 8, 'k': 3, 'w': list(w), 'interleaved': True, 'tier': tier})
    # a depthwise conv behind the driven layer shares its weight quantizer (per-channel search)
    for il in (False, True):
        out.append({'fam': 'B-wide', 'cout': 32, 'step': 8, 'k': 3, 'w': [2, 4, 8], 'post_dw': True, 'interleaved': il, 'tier': tier})
    # two wide layers: the driven layer is the SECOND one the refinement visits
    for pre_pat in ('low', 'mixed'):
        for k in (3, 1):
            out.append({'fam': 'B-wide', 'cout': 32, 'step': 8, 'k': k, 'w': [2, 4, 8], 'pre': 24, 'pre_pat': pre_pat, 'tier': tier})
    return out


def _check_reassign(P, C, scores, targets, add, label):
    from plinio.methods.mps.utils import _reassign_precisions
    best = torch.tensor(targets, dtype=torch.float32)
    try:
        out = _reassign_precisions(best, scores.clone())
    except Exception as e:
        add('reassign-raises', f'reassign-raises', f'{label}: {type(e).__name__}: {str(e)[:150]}')
        return
    col = out.sum(dim=0)
    counts = out.sum(dim=1)
    if not bool(((out == 0) | (out == 1)).all()) or not torch.equal(col, torch.ones(C)):
        add('channel-not-assigned-exactly-once', 'channel-not-assigned-exactly-once',
            f'{label}: per-channel number of assigned precisions {col.tolist()} (targets {list(targets)}, counts {counts.tolist()})')
    elif counts.tolist() != [float(t) for t in targets]:
        add('target-count-missed', 'target-count-missed', f'{label}: counts {counts.tolist()} != targets {list(targets)}')


def _run_A(case, seed):
    P, C = case['P'], case['C']
    n = P * C
    res = {'states': 0, 'transitions': 0, 'evals': 0, 'nontrivial': [], 'outcomes': set(), 'violations': []}
    only = case.get('only')

    def add(kind, sig, msg):
        res['outcomes'].add(kind)
        res['violations'].append({'kind': kind, 'sig': sig + f'/{P}x{C}' if False else sig, 'msg': msg, 'case': dict({k: v for k, v in case.items() if k != 'only'}, only=cur[0])})

    cur = [None]
    comps = list(_compositions(C, P))
    if case['fam'] == 'A':
        first = case['first']
        rest = [v for v in range(n - 1)]
        perms = itertools.permutations(rest)

        def mats():
            for perm in perms:
                flat = list(perm[:first]) + [n - 1] + list(perm[first:])
                yield flat
    elif case['fam'] == 'A-ties':
        def mats():
            for cols in itertools.product(range(P), repeat=C):          # one-hot columns
                m = [[1 if cols[c] == p else 0 for c in range(C)] for p in range(P)]
                yield [v for row in m for v in row]
            if n <= 9:
                for flat in itertools.product((0, 1, 2), repeat=n):      # small integer scores
                    yield list(flat)
    else:
        base = list(range(n))

        def mats():
            seen = set()
            cand = [tuple(base), tuple(reversed(base))]
            for b0 in list(cand):
                for i, j in itertools.combinations(range(n), 2):
                    t = list(b0)
                    t[i], t[j] = t[j], t[i]
                    cand.append(tuple(t))
                    if n <= 12:
                        for k, l in itertools.combinations(range(n), 2):
                            if (k, l) > (i, j):
                                u = list(t)
                                u[k], u[l] = u[l], u[k]
                                cand.append(tuple(u))
            for c in cand:
                if c not in seen:
                    seen.add(c)
                    yield list(c)
    nt = 0
    for flat in mats():
        scores = torch.tensor(flat, dtype=torch.float32).reshape(P, C) * 0.1
        cur_assign = torch.argmax(scores, dim=0)
        cur_counts = [int((cur_assign == p).sum()) for p in range(P)]
        res['states'] += 1
        for t in comps:
            label = {'scores': flat, 'targets': list(t)}
            if only is not None and only != label:
                continue
            cur[0] = label
            res['evals'] += 1
            res['transitions'] += 1
            if list(t) != cur_counts:
                nt += 1
            _check_reassign(P, C, scores, t, add, label)
    res['nontrivial'] = [f'{P}x{C}/{case.get("first")}/{i}' for i in range(min(nt, 2000))]
    res['outcomes'].add('ok') if not res['violations'] else None
    res['outcomes'] = sorted(res['outcomes'])
    res['sample'] = {'P': P, 'C': C, 'example_scores': flat, 'compositions': len(comps), 'nontrivial_inputs': nt}
    return res


# ----------------------------------------------------------------------------------------------
def _make_B(prog, w, seed):
    from plinio.methods.mps import MPS, MPSType, get_default_qinfo
    from plinio.cost import ne16_latency
    model, x = G2.build(prog, seed)
    qinfo = get_default_qinfo(w_precision=tuple(w), a_precision=(8,))
    nas = MPS(model, input_shape=G2.input_shape(prog), qinfo=qinfo, w_search_type=MPSType.PER_CHANNEL, cost={'ne16': ne16_latency})
    return nas, x


def _bits(nas):
    out = {}
    for lname, s in nas.summary().items():
        wp = s.get('w_precision')
        if isinstance(wp, list):
            out[lname] = list(wp)
    return out


def _run_B(case, seed):
    from plinio.methods.mps.utils import optimize_prec_assignment
    prog, w = case['prog'], case['w']
    res = {'states': 0, 'transitions': 0, 'evals': 0, 'nontrivial': [], 'outcomes': set(), 'violations': []}
    cur = [None]

    def add(kind, sig, msg):
        res['outcomes'].add(kind)
        res['violations'].append({'kind': kind, 'sig': sig, 'msg': f'w={w} {[s["op"] for s in prog["stages"]]}/{prog["head"]}: {cur[0]}: {msg}',
                                  'case': dict({k: v for k, v in case.items() if k != 'only'}, only=cur[0])})

    only = case.get('only')
    try:
        nas0, x = _make_B(prog, w, seed)
    except Exception as e:
        res.update(states=1, evals=1)
        add('conversion-raises', 'conversion-raises', f'{type(e).__name__}: {str(e)[:200]}')
        res['outcomes'] = sorted(res['outcomes'])
        return res
    mats = [(n, m) for n, m in GM.selectors(nas0) if m.alpha.dim() == 2]
    for si, (sname, m0) in enumerate(mats):
        P, C = m0.alpha.shape
        if C > 4:
            continue
        for cols in itertools.product(range(P), repeat=C):
            label = {'sel': si, 'cols': list(cols)}
            if only is not None and only != label:
                continue
            cur[0] = label
            nas, x = _make_B(prog, w, seed)
            sels = [(n, m) for n, m in GM.selectors(nas) if m.alpha.dim() == 2]
            with torch.no_grad():
                for sj, (_, m) in enumerate(sels):
                    Pj, Cj = m.alpha.shape
                    cc = list(cols) if sj == si else [(c + 1) % Pj for c in range(Cj)]
                    m.alpha.copy_(torch.stack([_reps(Pj, cc[c])[c % 3] for c in range(Cj)], dim=1))
            res['states'] += 1
            res['transitions'] += 1
            res['evals'] += 1
            try:
                nas.eval()
                nas.update_softmax_options(hard=True)
                with torch.no_grad():
                    nas(x)
                    before_bits = _bits(nas)
                    before_cost = float(nas.get_cost('ne16'))
                with contextlib.redirect_stdout(io.StringIO()):
                    nas = optimize_prec_assignment(nas, 'ne16')
                with torch.no_grad():
                    nas.eval()
                    nas(x)
                    after_bits = _bits(nas)
                    after_cost = float(nas.get_cost('ne16'))
                    th_ok = True
                    for _, m in [(n, m) for n, m in GM.selectors(nas) if m.alpha.dim() == 2]:
                        a = m.alpha.detach()
                        # each channel must have exactly one precision: after refinement alpha is a 0/1 matrix
                        if bool(((a == 0) | (a == 1)).all()) and not torch.equal(a.sum(dim=0), torch.ones(a.shape[1])):
                            th_ok = False
            except Exception as e:
                import traceback
                add('refinement-raises', 'refinement-raises', f'{type(e).__name__}: {str(e)[:200]} {traceback.format_exc()[-300:]}')
                continue
            if not th_ok:
                add('channel-not-assigned-exactly-once', 'channel-not-assigned-exactly-once/model', 'after refinement some channel has no (or several) precision')
            demoted = [(ln, c, before_bits[ln][c], after_bits[ln][c]) for ln in before_bits for c in range(len(before_bits[ln]))
                       if after_bits[ln][c] < before_bits[ln][c]]
            if demoted:
                add('channel-demoted', 'channel-demoted', f'channels with a lower bit-width than before: {demoted[:4]}')
            if after_cost > before_cost * (1 + 1e-6) + 1e-6:
                add('cost-raised', 'cost-raised', f"get_cost('ne16') {before_cost} -> {after_cost}")
            moved = before_bits != after_bits
            res['outcomes'].add('refined' if moved else 'unchanged')
            res['nontrivial'].append(f'{w}/{si}/{cols}/{[s["op"] for s in prog["stages"]]}')
    res['outcomes'] = sorted(res['outcomes'])
    res['sample'] = {'prog': prog, 'w': w, 'per_channel_selectors': [n for n, _ in mats]}
    return res


def _run_B_wide(case, seed):
    from plinio.methods.mps.utils import optimize_prec_assignment
    cout, step, k, w = case['cout'], case['step'], case['k'], case['w']
    prog = {'cin': 3, 'size': 6, 'stages': [{'op': 'conv', 'cout': cout, 'k': k}], 'head': 'gaplin'}
    pre, pre_pat = case.get('pre'), case.get('pre_pat')
    if case.get('post_dw'):
        # a depthwise conv BEHIND the driven layer: in per-channel search it shares the weight quantizer of its producer
        prog['stages'].append({'op': 'conv', 'dw': True})
    if pre:
        # a second refinable wide layer in FRONT of the driven one (the driven layer is then not the first layer the refinement visits);
        # its channels sit at the lowest precision ('low') or cycle through the precisions ('mixed')
        prog['stages'].insert(0, {'op': 'conv', 'cout': pre, 'k': 3})
    res = {'states': 0, 'transitions': 0, 'evals': 0, 'nontrivial': [], 'outcomes': set(), 'violations': []}
    cur = [None]

    def add(kind, sig, msg):
        res['outcomes'].add(kind)
        res['violations'].append({'kind': kind, 'sig': sig, 'msg': f'wide conv cout={cout} k={k} w={w}' + (f' behind a {pre}-channel conv ({pre_pat})' if pre else '') + (' + depthwise conv' if case.get('post_dw') else '') +
                                         (' [train mode, Gumbel]' if case.get('mode') else '') + (' [interleaved channels]' if case.get('interleaved') else '') + f': {cur[0]}: {msg}',
                                  'case': dict({kk: v for kk, v in case.items() if kk != 'only'}, only=cur[0])})
    only = case.get('only')
    P = len(w)
    for comp in _compositions(cout // step, P):
        counts = [c * step for c in comp]
        label = {'counts': counts}
        if only is not None and only != label:
            continue
        cur[0] = label
        nas, x = _make_B(prog, w, seed)
        sels = [(n, m) for n, m in GM.selectors(nas) if m.alpha.dim() == 2]
        cols = [p for p, n in enumerate(counts) for _ in range(n)]
        with torch.no_grad():
            for sj, (_, m) in enumerate(sels):
                Pj, Cj = m.alpha.shape
                if Cj == cout:
                    # channel c selects precision cols[c]; scores are tie-free and differ per channel
                    a = torch.zeros(Pj, Cj)
                    for c in range(Cj):
                        a[:, c] = _reps(Pj, cols[(c * 7) % Cj] if case.get('interleaved') else cols[c])[c % 3] + 0.001 * c
                    m.alpha.copy_(a)
                elif pre and Cj == pre:
                    m.alpha.copy_(torch.stack([_reps(Pj, 0 if pre_pat == 'low' else c % Pj)[c % 3] + 0.001 * c for c in range(Cj)], dim=1))
                else:
                    m.alpha.copy_(torch.stack([_reps(Pj, Pj - 1)[c % 3] for c in range(Cj)], dim=1))
        res['states'] += 1
        res['transitions'] += 1
        res['evals'] += 1
        shared_w = len({id(l.w_mps_quantizer) for _, l in nas.seed.named_modules() if hasattr(l, 'w_mps_quantizer')}) < \
            sum(1 for _, l in nas.seed.named_modules() if hasattr(l, 'w_mps_quantizer'))
        ssuf = '/weight-quantizer-shared-by-several-layers' if shared_w else ''
        try:
            nas.eval()
            nas.update_softmax_options(hard=True)
            with torch.no_grad():
                nas(x)
                before_bits = _bits(nas)
                before_cost = float(nas.get_cost('ne16'))
            if case.get('mode') == 'train-gumbel':
                # the refinement is called on a model that is still in its search configuration (training mode, Gumbel sampling)
                nas.update_softmax_options(gumbel=True)
                nas.train()
                torch.manual_seed(seed + 23)
            with contextlib.redirect_stdout(io.StringIO()):
                nas = optimize_prec_assignment(nas, 'ne16')
                # ... and once more on its own result (the refinement writes 0/1 coefficients back: every score row is full of ties)
                if case.get('twice', True):
                    with torch.no_grad():
                        nas.eval()
                        nas(x)
                        mid_bits = _bits(nas)
                        mid_cost = float(nas.get_cost('ne16'))
                    nas = optimize_prec_assignment(nas, 'ne16')
            with torch.no_grad():
                nas.eval()
                nas(x)
                after_bits = _bits(nas)
                after_cost = float(nas.get_cost('ne16'))
            if case.get('twice', True):
                dem2 = [(ln, c) for ln in mid_bits for c in range(len(mid_bits[ln])) if after_bits[ln][c] < mid_bits[ln][c]]
                if dem2:
                    add('channel-demoted', 'channel-demoted/second-refinement' + ssuf, f'a second refinement of the refined model lowers channels {dem2[:4]}')
                if after_cost > mid_cost * (1 + 1e-6) + 1e-6:
                    add('cost-raised', 'cost-raised/second-refinement' + ssuf, f"second refinement: get_cost('ne16') {mid_cost} -> {after_cost}")
            bad_cols = False
            for _, m in [(n, m) for n, m in GM.selectors(nas) if m.alpha.dim() == 2]:
                a = m.alpha.detach()
                if bool(((a == 0) | (a == 1)).all()) and not torch.equal(a.sum(dim=0), torch.ones(a.shape[1])):
                    bad_cols = True
        except Exception as e:
            import traceback
            add('refinement-raises', 'refinement-raises/wide', f'{type(e).__name__}: {str(e)[:200]} {traceback.format_exc()[-300:]}')
            continue
        if bad_cols:
            add('channel-not-assigned-exactly-once', 'channel-not-assigned-exactly-once/model', 'after refinement some channel has no (or several) precision')
        demoted = [(ln, c, before_bits[ln][c], after_bits[ln][c]) for ln in before_bits for c in range(len(before_bits[ln]))
                   if after_bits[ln][c] < before_bits[ln][c]]
        if demoted:
            add('channel-demoted', 'channel-demoted' + ssuf, f'channels with a lower bit-width than before: {demoted[:4]}')
        if after_cost > before_cost * (1 + 1e-6) + 1e-6:
            add('cost-raised', 'cost-raised' + ssuf, f"get_cost('ne16') {before_cost} -> {after_cost} "
                                              f"(counts before { {b: sum(1 for v in before_bits[ln] if v == b) for ln in before_bits for b in w} }, "
                                              f"after { {b: sum(1 for v in after_bits[ln] if v == b) for ln in after_bits for b in w} })")
        res['outcomes'].add('refined' if before_bits != after_bits else 'unchanged')
        res['nontrivial'].append(f'wide/{cout}/{k}/{w}/{counts}')
    res['outcomes'] = sorted(res['outcomes'])
    res['sample'] = {'wide': True, 'cout': cout, 'k': k, 'w': w, 'count_step': step, 'layer_in_front': [pre, pre_pat] if pre else None}
    return res


def run_case(case, seed):
    if case['fam'] == 'A-ties':
        return _run_A(case, seed)
    if case['fam'] == 'B-wide':
        return _run_B_wide(case, seed)
    return _run_B(case, seed) if case['fam'] == 'B' else _run_A(case, seed)
