"""Shared PIT driver: builds a grammar program, converts it with the real PIT, enumerates abstract mask
configurations (deviation-bounded or complete), realises them on the real parameters and evaluates
oracles (export equality, sizes, costs, input-feature accounting)."""
import itertools
import math
import traceback

import torch
import torch.nn as nn

from .grammar import pit as G
from . import tol


# ----------------------------------------------------------------------------------------------
def make_pit(prog, seed, **kw):
    """-> dict with model, x, y0, pit (or 'error')"""
    from plinio.methods import PIT
    model, x = G.build(prog, seed)
    with torch.no_grad():
        y0 = model(x).clone()
    out = {'model': model, 'x': x, 'y0': y0, 'prog': prog}
    # how the input signature is handed to the constructor rotates over the programs (deterministically): the shape, a one-sample
    # example, or the whole 3-sample witness batch - nothing a check observes may depend on the batch size of that example
    import hashlib
    import json
    via = int(hashlib.sha1(json.dumps(prog, sort_keys=True).encode()).hexdigest(), 16) % 3
    if 'input_shape' in kw or 'input_example' in kw or via == 0:
        args = dict(input_shape=G.input_shape(prog))
    elif via == 1:
        args = dict(input_example=x[:1].clone())
    else:
        args = dict(input_example=x.clone())
    out['signature_via'] = ('shape', 'example-1', 'example-3')[via]
    args['exclude_names'] = G.excluded_names(prog)
    args.update(kw)
    try:
        out['pit'] = PIT(model, **args)
    except Exception as e:
        out['error'] = e
        out['tb'] = traceback.format_exc()[-1200:]
    return out


def pit_layers(pit):
    from plinio.methods.pit.nn.module import PITModule
    return [(n, m) for n, m in pit.seed.named_modules()
            if isinstance(m, PITModule) and hasattr(m, 'out_features_masker')]


def elements(pit, prog, time_moves=True, allow_same=False):
    """Abstract configuration elements of a converted model.
    -> list of dicts {kind:'ch'|'rf'|'dil', obj, idx|None, default, domain(non-default values), name}"""
    from plinio.methods.pit.nn.features_masker import PITFeaturesMasker, PITFrozenFeaturesMasker
    from plinio.methods.pit.nn.timestep_masker import PITFrozenTimestepMasker
    from plinio.methods.pit.nn.conv1d import PITConv1d
    els, seen = [], set()
    for name, layer in pit_layers(pit):
        fm = getattr(layer, 'out_features_masker', None)
        if fm is not None and id(fm) not in seen:
            seen.add(id(fm))
            if type(fm) is PITFeaturesMasker:
                for j in range(fm.out_channels - 1):   # last channel is the keep-alive one
                    els.append({'kind': 'ch', 'obj': fm, 'idx': j, 'default': 1, 'domain': [0],
                                'name': f'{name}.alpha[{j}]', 'group': name})
        if time_moves and isinstance(layer, PITConv1d) and not isinstance(layer.timestep_masker, PITFrozenTimestepMasker):
            if _is_causal(pit, name) or (allow_same and layer.padding == 'same'):
                k = layer.kernel_size[0]
                if k > 1:
                    els.append({'kind': 'rf', 'obj': layer, 'idx': None, 'default': k,
                                'domain': list(range(k - 1, 0, -1)), 'name': f'{name}.rf'})
                L = layer.dilation_masker._gamma_len
                if L > 1:
                    els.append({'kind': 'dil', 'obj': layer, 'idx': None, 'default': 0,
                                'domain': list(range(1, L)), 'name': f'{name}.dil'})
    return els


def _is_causal(pit, name):
    """conv `name` is fed by a left ConstantPad1d of exactly (k-1)*d and has padding 0"""
    layer = pit.seed.get_submodule(name)
    if layer.padding not in (0, (0,), 'valid'):
        return False
    parent = name.rsplit('.', 1)[0]
    try:
        blk = pit.seed.get_submodule(parent)
    except AttributeError:
        return False
    pp = getattr(blk, 'prepad', None)
    return isinstance(pp, nn.ConstantPad1d) and tuple(pp.padding) == ((layer.kernel_size[0] - 1) * layer.dilation[0], 0)


def enum_configs(els, dev_bound, cap, corners=True):
    """All configurations (dict element-index -> value) within `dev_bound` deviations from the default, or the
    complete lattice if its size is <= cap.  Returns (list, complete:bool)."""
    size = 1
    for e in els:
        size *= 1 + len(e['domain'])
    if size <= cap:
        doms = [[e['default']] + e['domain'] for e in els]
        out = []
        for combo in itertools.product(*doms):
            out.append({i: v for i, (v, e) in enumerate(zip(combo, els)) if v != e['default']})
        out.sort(key=lambda c: (len(c), sorted(c.items())))
        return out, True
    out = [{}]
    for d in range(1, dev_bound + 1):
        for idxs in itertools.combinations(range(len(els)), d):
            for vals in itertools.product(*[els[i]['domain'] for i in idxs]):
                out.append(dict(zip(idxs, vals)))
    if corners:
        # everything at its minimum; every channel pruned; every time element at its minimum
        out.append({i: e['domain'][-1] for i, e in enumerate(els)})
        out.append({i: e['domain'][-1] for i, e in enumerate(els) if e['kind'] == 'ch'})
        out.append({i: e['domain'][-1] for i, e in enumerate(els) if e['kind'] != 'ch'})
    return out, False


PRUNED_REPS = [0.0, 0.49, -0.3, 0.2]
KEPT_REPS = [1.0, 0.51, -2.5, 1e30]


def apply_config(els, cfg, rep=0, via_data=False):
    """Realise an abstract configuration on the real parameters.  rep selects the representative values; via_data writes
    through `.data` (no version-counter bump) instead of in-place under no_grad - both are how masks get written in practice."""
    lo = PRUNED_REPS[rep % len(PRUNED_REPS)]
    hi = KEPT_REPS[rep % len(KEPT_REPS)]
    with torch.no_grad():
        # defaults first
        done = set()
        for i, e in enumerate(els):
            v = cfg.get(i, e['default'])
            if e['kind'] == 'ch':
                fm = e['obj']
                tgt = fm.alpha.data if via_data else fm.alpha
                if id(fm) not in done:
                    done.add(id(fm))
                    tgt.fill_(hi)
                tgt[e['idx']] = hi if v == 1 else lo
            elif e['kind'] == 'rf':
                layer = e['obj']
                k = layer.kernel_size[0]
                beta = torch.full((k,), hi)
                # suffix of length r alive: theta_beta[i] = sum_{j<=i} |beta_j| ; zero the first k-r entries
                # (a "pruned" representative must keep the running sum below threshold: use lo/k)
                beta[:k - v] = lo / k
                (layer.timestep_masker.beta.data if via_data else layer.timestep_masker.beta).copy_(beta)
            elif e['kind'] == 'dil':
                layer = e['obj']
                L = layer.dilation_masker._gamma_len
                gamma = torch.full((L,), hi)
                gamma[:v] = lo / L
                (layer.dilation_masker.gamma.data if via_data else layer.dilation_masker.gamma).copy_(gamma)


def describe(els, cfg):
    return {els[i]['name']: v for i, v in sorted(cfg.items())}


def cfg_from_desc(els, desc):
    by = {e['name']: i for i, e in enumerate(els)}
    return {by[k]: v for k, v in desc.items()}


# ----------------------------------------------------------------------------------------------
# export + BN statistics transfer (the proviso of C01)
# ----------------------------------------------------------------------------------------------
def export_with_bn(pit, add_bn=True):
    exp = pit.export() if add_bn else pit.export(add_bn=False)
    with torch.no_grad():
        for name, layer in pit_layers(pit):
            bn = getattr(layer, 'bn', None)
            if bn is None or getattr(layer, 'fold_bn', False):
                continue
            try:
                ebn = exp.get_submodule(name + '_exported_bn')
            except AttributeError:
                continue
            m = layer.features_mask.bool()
            ebn.running_mean.copy_(bn.running_mean[m])
            ebn.running_var.copy_(bn.running_var[m])
            if bn.affine:
                ebn.weight.copy_(bn.weight[m])
                ebn.bias.copy_(bn.bias[m])
    return exp


def own_masks(pit, prog):
    """own binarised output mask of every conv/linear layer of the program (all True for non-PIT layers)"""
    from plinio.methods.pit.nn.module import PITModule
    own = {}
    for name in G.layer_names(prog):
        m = pit.seed.get_submodule(name)
        if isinstance(m, PITModule):
            own[name] = [bool(b) for b in m.features_mask.tolist()]
        else:
            n = m.out_channels if hasattr(m, 'out_channels') else m.out_features
            own[name] = [True] * n
    return own


def flat_mult(model, prog):
    if prog['head']['kind'] == 'flatcat':
        return (model._sp_a, model._sp_b)
    if prog['head']['kind'] == 'flatadd':
        return model.head['fc'].in_features // 3
    if prog['head']['kind'] != 'flatlin':
        return 1
    return model.head['fc'].in_features // model.c_final


# ----------------------------------------------------------------------------------------------
# reference costs on an exported (plain) network
# ----------------------------------------------------------------------------------------------
def ref_costs(exp, x, only_names=None):
    """Independent recomputation on the exported network.  -> dict metric -> float.
    only_names: restrict to these module names (searchable layers) or None = all conv/linear layers."""
    import torch.fx as fx
    from torch.fx.passes.shape_prop import ShapeProp
    if not isinstance(exp, fx.GraphModule):
        exp = traced(exp)
    ShapeProp(exp).propagate(x)
    res = {'params': 0.0, 'params_nb': 0.0, 'ops': 0.0, 'ops_nb': 0.0}
    seen = set()
    mods = dict(exp.named_modules())
    for n in exp.graph.nodes:
        if n.op != 'call_module':
            continue
        name = str(n.target)
        m = mods[name]
        if not isinstance(m, (nn.Conv1d, nn.Conv2d, nn.Linear)):
            continue
        if only_names is not None and name not in only_names:
            continue
        w = m.weight.numel()
        b = m.bias.numel() if m.bias is not None else 0
        shape = n.meta['tensor_meta'].shape
        if isinstance(m, nn.Linear):
            sites = 1
            outs = m.out_features
        else:
            sites = math.prod(shape[2:])
            outs = m.out_channels
        res['ops'] += (w + b) * sites          # every weight is one MAC per output position (+ bias add)
        res['ops_nb'] += w * sites
        if name not in seen:
            seen.add(name)
            res['params'] += w + b
            res['params_nb'] += w
    return res


def repair_repeated_bn(exp):
    """Causal attribution helper for finding D25: export() re-creates the fused BatchNorm only after the FIRST
    call site of a layer that is invoked several times per forward.  This inserts the `<name>_exported_bn` call
    after every other call site of the same layer.  Returns the number of call sites repaired."""
    mods = dict(exp.named_modules())
    fixed = 0
    for n in list(exp.graph.nodes):
        if n.op != 'call_module' or (str(n.target) + '_exported_bn') not in mods:
            continue
        bn_name = str(n.target) + '_exported_bn'
        if any(u.op == 'call_module' and str(u.target) == bn_name for u in n.users):
            continue
        with exp.graph.inserting_after(n):
            new = exp.graph.call_module(bn_name, args=(n,))
        n.replace_all_uses_with(new)
        new.replace_input_with(new, n)
        fixed += 1
    if fixed:
        exp.graph.lint()
        exp.recompile()
    return fixed


def traced(model):
    """fx GraphModule of a plain model with torch.nn layers as leaves (module names preserved)"""
    import torch.fx as fx

    class _T(fx.Tracer):
        def is_leaf_module(self, m, qn):
            return m.__module__.startswith('torch.nn') and not isinstance(m, nn.Sequential)
    tr = _T()
    g = tr.trace(model)
    return fx.GraphModule(tr.root, g)


def struct_check(pit, exp, prog, summ=None):
    """summary() vs exported hyper-parameters (summ: a summary taken by the caller, e.g. BEFORE the export; default: taken now)"""
    import torch.nn as nn
    bad = []
    if summ is None:
        summ = pit.summary()
    for name, layer in pit_layers(pit):
        s = summ[name]
        try:
            e = exp.get_submodule(name)
        except AttributeError:
            bad.append(f'{name}: missing in exported network')
            continue
        if isinstance(e, (nn.Conv1d, nn.Conv2d)):
            if (e.in_channels, e.out_channels) != (s['in_features'], s['out_features']):
                bad.append(f'{name}: exported channels {(e.in_channels, e.out_channels)} vs summary {(s["in_features"], s["out_features"])}')
            if isinstance(e, nn.Conv1d):
                if tuple(e.kernel_size) != tuple(s['kernel_size']) or tuple(e.dilation) != tuple(s['dilation']):
                    bad.append(f'{name}: exported k/d {e.kernel_size}/{e.dilation} vs summary {s["kernel_size"]}/{s["dilation"]}')
                if _is_causal(pit, name):
                    pp = exp.get_submodule(name.rsplit('.', 1)[0] + '.prepad')
                    want = ((e.kernel_size[0] - 1) * e.dilation[0], 0)
                    if tuple(pp.padding) != want:
                        bad.append(f'{name}: exported left pad {tuple(pp.padding)} vs (k-1)*d {want}')
        elif isinstance(e, nn.Linear):
            if (e.in_features, e.out_features) != (s['in_features'], s['out_features']):
                bad.append(f'{name}: exported features {(e.in_features, e.out_features)} vs summary {(s["in_features"], s["out_features"])}')
    return bad


