"""G_pit - bounded grammar of PIT-supported networks.  Programs are JSON-able dicts:

  {'dim': 1|2, 'cin': int, 'size': int, 'stages': [stage...], 'head': {...}}

Stage kinds (every stage maps the running tensor T with c channels to a new T):
  conv      {'op':'conv','cout','k','d','s','bias','bn','pad':'causal'|'same'|'sym'|'valid','dw','act'}
  residual  relu(convA(T) + convB(T))                      {'op':'residual','cout', conv options of A via 'a'}
  skipadd   relu(T + conv(T))                              {'op':'skipadd'}
  concat    cat([m1(T), m2(T), ...], dim=1)                {'op':'concat','members':['conv'|'id'|'xconv'|'dwconv'|'mp'|'ap',...]}
  timecat   cat([convA(T), convB(T)], dim=2)   (1D only)   {'op':'timecat','cout'}
  pool      {'op':'pool','kind':'max'|'avg'|'adaptive'}
  twice     relu(L(T) + L(dropout(T)))                     {'op':'twice','cout'}  (c -> cout needs cout == c? no: L: c->cout applied to T twice)
  dropout   {'op':'dropout'}
Heads:
  flatlin   flatten (variant) -> linear(out)               {'kind':'flatlin','flat':'module'|'torch'|'method','out'}
  gaplin    adaptive avg pool(1) -> flatten|squeeze -> linear -> BN1d -> relu -> linear
  fcn       fully convolutional: 1x1 conv with `out` channels is the output
'xconv' members / stages with 'exclude': True are excluded from the search by name.
"""
import torch
import torch.nn as nn
import torch.nn.functional as F


def conv_defaults(st):
    d = {'cout': 3, 'k': 3, 'd': 1, 's': 1, 'bias': True, 'bn': False, 'pad': None, 'dw': False, 'act': 'relu',
         'exclude': False}
    d.update(st)
    return d


class _ConvBlock(nn.Module):
    """not a leaf for the PIT tracer (user module): pad -> conv -> [bn] -> [act] are traced individually"""

    def __init__(self, dim, cin, st):
        super().__init__()
        st = conv_defaults(st)
        self.dim = dim
        k, d, s = st['k'], st['d'], st['s']
        pad = st['pad'] or ('causal' if dim == 1 else 'same')
        cout = cin if st['dw'] else st['cout']
        groups = cin if st['dw'] else 1
        self.prepad = None
        if dim == 1:
            if pad in ('causal', 'causalv'):
                # explicit left padding + an un-padded conv, spelled padding=0 or, as the PIT README writes it, padding='valid'
                self.prepad = nn.ConstantPad1d(((k - 1) * d, 0), 0.0)
                p = 0 if pad == 'causal' else 'valid'
            elif pad == 'same':
                p = 'same' if s == 1 else ((k - 1) * d) // 2
            elif pad == 'sym':
                p = ((k - 1) * d) // 2
            else:
                p = 0
            self.conv = nn.Conv1d(cin, cout, k, stride=s, padding=p, dilation=d, groups=groups, bias=st['bias'], padding_mode=st.get('pmode') or 'zeros')
            self.bn = nn.BatchNorm1d(cout, eps=st.get('bn_eps', 1e-5)) if st['bn'] else None
        else:
            if pad in ('same', 'causal'):
                p = 'same' if s == 1 else ((k - 1) * d) // 2
            elif pad == 'sym':
                p = ((k - 1) * d) // 2
            else:
                p = 0
            self.conv = nn.Conv2d(cin, cout, k, stride=s, padding=p, dilation=d, groups=groups, bias=st['bias'], padding_mode=st.get('pmode') or 'zeros')
            self.bn = nn.BatchNorm2d(cout, eps=st.get('bn_eps', 1e-5)) if st['bn'] else None
        self.act = {'relu': nn.ReLU(), 'relu6': nn.ReLU6(), 'silu': nn.SiLU(), None: None, 'frelu': 'frelu'}[st['act']]
        self.cout = cout

    def forward(self, x):
        if self.prepad is not None:
            x = self.prepad(x)
        x = self.conv(x)
        if self.bn is not None:
            x = self.bn(x)
        if self.act == 'frelu':
            x = F.relu(x)
        elif self.act is not None:
            x = self.act(x)
        return x


def _pool(dim, kind):
    if dim == 1:
        return {'max': nn.MaxPool1d(2), 'avg': nn.AvgPool1d(2), 'adaptive': nn.AdaptiveAvgPool1d(2)}[kind]
    return {'max': nn.MaxPool2d(2), 'avg': nn.AvgPool2d(2), 'adaptive': nn.AdaptiveAvgPool2d(2)}[kind]


class Net(nn.Module):
    def __init__(self, prog):
        super().__init__()
        self.prog = prog
        dim, c = prog['dim'], prog['cin']
        self.blocks = nn.ModuleDict()
        for i, st in enumerate(prog['stages']):
            op = st['op']
            if op == 'conv':
                b = _ConvBlock(dim, c, st)
                self.blocks[f's{i}'] = b
                c = b.cout
            elif op == 'residual':
                co = st.get('cout', 3)
                self.blocks[f's{i}a'] = _ConvBlock(dim, c, dict(st.get('a', {}), cout=co, act=None))
                self.blocks[f's{i}b'] = _ConvBlock(dim, c, dict(st.get('b', {}), cout=co, act=None))
                c = co
            elif op == 'skipadd':
                self.blocks[f's{i}a'] = _ConvBlock(dim, c, dict(st.get('a', {}), cout=c, act=None))
            elif op == 'concat':
                tot = 0
                for j, m in enumerate(st['members']):
                    if m == 'id':
                        tot += c
                    elif m in ('mp', 'ap'):     # "concat pooling": size-preserving max / average pooling of the same tensor
                        P = {(1, 'mp'): nn.MaxPool1d, (1, 'ap'): nn.AvgPool1d, (2, 'mp'): nn.MaxPool2d, (2, 'ap'): nn.AvgPool2d}[(dim, m)]
                        self.blocks[f's{i}m{j}'] = P(3, stride=1, padding=1)
                        tot += c
                    elif m == 'dwconv':
                        self.blocks[f's{i}m{j}'] = _ConvBlock(dim, c, {'dw': True, 'act': None})
                        tot += c
                    else:  # 'conv' | 'xconv' | 'conv2' (2 channels)
                        co = 2 if m == 'conv2' else st.get('cout', 3)
                        self.blocks[f's{i}m{j}'] = _ConvBlock(dim, c, {'cout': co, 'act': 'relu', 'k': st.get('k', 3)})
                        tot += co
                c = tot
            elif op == 'timecat':
                co = st.get('cout', 3)
                self.blocks[f's{i}a'] = _ConvBlock(dim, c, {'cout': co, 'act': None})
                self.blocks[f's{i}b'] = _ConvBlock(dim, c, {'cout': co, 'act': None})
                c = co
            elif op == 'pool':
                self.blocks[f's{i}'] = _pool(dim, st.get('kind', 'max'))
            elif op == 'twice':
                co = st.get('cout', 3)
                self.blocks[f's{i}a'] = _ConvBlock(dim, c, dict(st.get('a', {}), cout=co, act=None))
                self.blocks[f's{i}d'] = nn.Dropout(0.1)
                if st.get('variant') == 'pool':
                    self.blocks[f's{i}p'] = _pool(dim, 'avg')
                c = co
            elif op == 'dropout':
                self.blocks[f's{i}'] = nn.Dropout(0.1)
            else:
                raise ValueError(op)
        self.c_final = c
        # spatial size after the stages: measured, not computed
        self.head = nn.ModuleDict()
        h = prog['head']
        self._hk = h['kind']
        if self._hk in ('flatlin', 'gaplin'):
            self.eval()
            with torch.no_grad():
                probe = self._features(torch.zeros((1, prog['cin']) + (prog['size'],) * dim))
            self.train()
            if self._hk == 'flatlin':
                if h.get('flat', 'module') == 'module':
                    self.head['flatten'] = nn.Flatten()
                self.head['fc'] = nn.Linear(int(probe[0].numel()), h.get('out', 3), bias=h.get('bias', True))
            else:
                self.head['gap'] = nn.AdaptiveAvgPool1d(1) if dim == 1 else nn.AdaptiveAvgPool2d(1)
                if h.get('flat', 'module') == 'module':
                    self.head['flatten'] = nn.Flatten()
                hid = h.get('hidden', 4)
                self.head['fc1'] = nn.Linear(c, hid, bias=h.get('hbias', True))
                if h.get('bn', True):
                    self.head['bn'] = nn.BatchNorm1d(hid, eps=h.get('bn_eps', 1e-5))
                self.head['relu'] = nn.ReLU()
                self.head['fc'] = nn.Linear(hid, h.get('out', 3))
        elif self._hk == 'fcn':
            self.head['out'] = (nn.Conv1d if dim == 1 else nn.Conv2d)(c, h.get('out', 2), 1)
            if h.get('post') == 'gap':
                self.head['gap'] = nn.AdaptiveAvgPool1d(1) if dim == 1 else nn.AdaptiveAvgPool2d(1)
            if h.get('post') == 'relu':
                self.head['postrelu'] = nn.ReLU()
        elif self._hk == 'fcnadd':
            self.head['out'] = (nn.Conv1d if dim == 1 else nn.Conv2d)(c, h.get('out', 2), 1)
            self.head['out2'] = (nn.Conv1d if dim == 1 else nn.Conv2d)(c, h.get('out', 2), 1)
        elif self._hk == 'flatadd':
            # two distinct searchable producers are flattened (or pooled + squeezed) BEFORE the width-sharing join
            conv = nn.Conv1d if dim == 1 else nn.Conv2d
            self.head['fa'] = conv(c, 3, 1)
            self.head['fb'] = conv(c, 3, 1)
            self.eval()
            with torch.no_grad():
                probe = self._features(torch.zeros((1, prog['cin']) + (prog['size'],) * dim))
            self.train()
            sp = int(probe[0].numel() // c)
            if h.get('join') == 'gap':
                self.head['gap'] = nn.AdaptiveAvgPool1d(1) if dim == 1 else nn.AdaptiveAvgPool2d(1)
                sp = 1
            self.head['fc'] = nn.Linear(3 * sp, h.get('out', 3))
        elif self._hk == 'flatcat':
            # two searchable producers flattened at DIFFERENT spatial sizes (the second one is pooled first) and concatenated
            conv = nn.Conv1d if dim == 1 else nn.Conv2d
            self.head['fa'] = conv(c, 3, 1)
            self.head['fb'] = conv(c, 2, 1)
            self.head['pool'] = nn.MaxPool1d(2) if dim == 1 else nn.MaxPool2d(2)
            self.eval()
            with torch.no_grad():
                probe = self._features(torch.zeros((1, prog['cin']) + (prog['size'],) * dim))
                pb = self.head['pool'](probe)
            self.train()
            self._sp_a = int(probe[0].numel() // c)
            self._sp_b = int(pb[0].numel() // c)
            self.head['fc'] = nn.Linear(3 * self._sp_a + 2 * self._sp_b, h.get('out', 3))
        elif self._hk == 'flatout':
            pass
        else:
            raise ValueError(self._hk)

    def _features(self, x):
        p = self.prog
        inp = x
        for i, st in enumerate(p['stages']):
            op = st['op']
            if op == 'conv':
                x = self.blocks[f's{i}'](x)
            elif op == 'residual':
                # the sum spelled with the operator or, equivalently, as torch.add(a, b) / torch.add(input=a, other=b)
                a, b = self.blocks[f's{i}a'](x), self.blocks[f's{i}b'](x)
                x = torch.relu(torch.add(a, b) if st.get('addfn') == 'torch' else torch.add(input=a, other=b) if st.get('addfn') == 'kw' else a + b)
            elif op == 'skipadd':
                a = self.blocks[f's{i}a'](x)
                x = torch.relu(torch.add(x, a) if st.get('addfn') == 'torch' else torch.add(input=x, other=a) if st.get('addfn') == 'kw' else x + a)
            elif op == 'concat':
                ms = []
                for j, m in enumerate(st['members']):
                    ms.append(x if m == 'id' else self.blocks[f's{i}m{j}'](x))
                # the channel axis spelled as 1 or, equivalently, with a negative index (-2 in 1D, -3 in 2D)
                if st.get('catkw') == 'axis':    # torch.cat accepts `axis` as an alias of `dim`
                    x = torch.cat(ms, axis=1)
                elif st.get('catkw'):
                    x = torch.cat(tensors=ms, dim=1)
                else:
                    x = torch.cat(ms, dim=-(self.prog['dim'] + 1) if st.get('negc') else 1)
            elif op == 'timecat':
                # the time axis spelled as 2 or, equivalently, as -1
                x = torch.relu(torch.cat([self.blocks[f's{i}a'](x), self.blocks[f's{i}b'](x)], dim=-1 if st.get('neg') else 2))
            elif op == 'pool':
                x = self.blocks[f's{i}'](x)
            elif op == 'twice':
                L = self.blocks[f's{i}a']
                if st.get('variant') == 'pool':
                    x = torch.relu(self.blocks[f's{i}p'](L(x)) + L(self.blocks[f's{i}p'](x)))
                else:
                    x = torch.relu(L(x) + L(self.blocks[f's{i}d'](x)))
            elif op == 'dropout':
                x = self.blocks[f's{i}'](x)
        return x

    def forward(self, x):
        x = self._features(x)
        h = self.prog['head']
        if self._hk == 'flatout':     # the network output is the flattened activation of the last conv (no final Linear)
            return x.flatten(1)
        if self._hk == 'flatlin':
            fl = h.get('flat', 'module')
            if fl == 'module':
                x = self.head['flatten'](x)
            elif fl == 'torch':
                x = torch.flatten(x, 1)
            elif fl == 'torchend':      # explicit (inclusive) end_dim
                x = torch.flatten(x, 1, self.prog['dim'] + 1)
            elif fl == 'kwend':
                x = torch.flatten(x, start_dim=1, end_dim=self.prog['dim'] + 1)
            elif fl == 'methodend':
                x = x.flatten(1, -1)
            elif fl == 'negstart':      # the channel axis spelled with a negative index (-2 in 1D, -3 in 2D)
                x = torch.flatten(x, -(self.prog['dim'] + 1))
            elif fl == 'negstartm':
                x = x.flatten(start_dim=-(self.prog['dim'] + 1))
            else:
                x = x.flatten(1)
            return self._post(self.head['fc'](x))
        if self._hk == 'gaplin':
            x = self.head['gap'](x)
            fl = h.get('flat', 'module')
            if fl == 'module':
                x = self.head['flatten'](x)
            elif fl == 'torch':
                x = torch.flatten(x, 1)
            elif fl == 'method':
                x = x.flatten(1)
            elif fl == 'squeeze':
                x = x.squeeze(-1) if self.prog['dim'] == 1 else x.squeeze(-1).squeeze(-1)
            elif fl == 'squeezepos':    # the same axes spelled with positive indices
                x = x.squeeze(2) if self.prog['dim'] == 1 else x.squeeze(3).squeeze(2)
            x = self.head['fc1'](x)
            if 'bn' in self.head:
                x = self.head['bn'](x)
            x = self.head['relu'](x)
            return self._post(self.head['fc'](x))
        if self._hk == 'fcnadd':
            return self.head['out'](x) + self.head['out2'](x)
        if self._hk == 'flatcat':
            a = torch.relu(self.head['fa'](x)).flatten(1)
            b = self.head['pool'](torch.relu(self.head['fb'](x))).flatten(1)
            return self.head['fc'](torch.cat((a, b), 1))
        if self._hk == 'flatadd':
            a, b = self.head['fa'](x), self.head['fb'](x)
            if h.get('join') == 'gap':
                a, b = self.head['gap'](a), self.head['gap'](b)
                if self.prog['dim'] == 1:
                    j = a.squeeze(2) + b.squeeze(2)
                else:
                    j = torch.flatten(a, 1) + torch.flatten(b, 1)
            else:
                j = a.flatten(1) + b.flatten(1)
            return self.head['fc'](torch.relu(j))
        y = self.head['out'](x)
        if h.get('post') == 'gap':
            return torch.flatten(self.head['gap'](y), 1)
        if h.get('post') == 'relu':
            return self.head['postrelu'](y)
        return self._post(y)

    def _post(self, y):
        """the last searchable layer may reach the output through a features-propagating op"""
        p = self.prog['head'].get('post')
        if p == 'frelu':
            return F.relu(y)
        if p == 'lsm':
            return F.log_softmax(y, dim=1)
        return y


def build(prog, seed):
    """-> (model in eval mode with non-trivial seeded weights and BN statistics, witness batch x)"""
    g = torch.Generator().manual_seed(1000003 * (seed + 1) + 17)
    torch.manual_seed(seed * 7919 + 13)
    m = Net(prog)
    with torch.no_grad():
        for p in m.parameters():
            p.copy_(torch.randn(p.shape, generator=g) * 0.5 + 0.05)
        for mod in m.modules():
            if isinstance(mod, (nn.BatchNorm1d, nn.BatchNorm2d)):
                mod.running_mean.copy_(torch.randn(mod.running_mean.shape, generator=g) * 0.3)
                mod.running_var.copy_(torch.rand(mod.running_var.shape, generator=g) + 0.5)
                mod.weight.copy_(torch.rand(mod.weight.shape, generator=g) + 0.5)
                mod.bias.copy_(torch.randn(mod.bias.shape, generator=g) * 0.3)
    m.eval()
    x = torch.randn((3, prog['cin']) + (prog['size'],) * prog['dim'], generator=g)
    return m, x


def excluded_names(prog):
    out = []
    for i, st in enumerate(prog['stages']):
        if st['op'] == 'conv' and st.get('exclude'):
            out.append(f'blocks.s{i}.conv')
        if st['op'] == 'concat':
            for j, m in enumerate(st['members']):
                if m == 'xconv':
                    out.append(f'blocks.s{i}m{j}.conv')
    return out


def input_shape(prog):
    return (prog['cin'],) + (prog['size'],) * prog['dim']


def layer_names(prog):
    """names (in the user model / PIT seed) of every conv / linear layer, in dataflow order"""
    out = []
    for i, st in enumerate(prog['stages']):
        op = st['op']
        if op == 'conv':
            out.append(f'blocks.s{i}.conv')
        elif op in ('residual', 'timecat'):
            out += [f'blocks.s{i}a.conv', f'blocks.s{i}b.conv']
        elif op in ('skipadd', 'twice'):
            out.append(f'blocks.s{i}a.conv')
        elif op == 'concat':
            out += [f'blocks.s{i}m{j}.conv' for j, m in enumerate(st['members']) if m not in ('id', 'mp', 'ap')]
    hk = prog['head']['kind']
    out += {'flatlin': ['head.fc'], 'gaplin': ['head.fc1', 'head.fc'], 'fcn': ['head.out'], 'fcnadd': ['head.out', 'head.out2'],
            'flatadd': ['head.fa', 'head.fb', 'head.fc'], 'flatcat': ['head.fa', 'head.fb', 'head.fc'], 'flatout': []}[hk]
    return out


def alive_ref(prog, own, flat_mult):
    """Reference dataflow propagation of channel aliveness, at the level of the program (independent of
    plinio's graph analysis).  `own[name]` = the layer's own binarised output mask (list of bool).
    Returns (expected input-alive vector per layer name, list of structural complaints)."""
    T = [True] * prog['cin']
    exp_in, issues = {}, []

    def conv(name, t, dw=False):
        exp_in[name] = list(t)
        o = [bool(b) for b in own[name]]
        if dw and o != list(t):
            issues.append((name, 'dw-mask-differs-from-input', list(t), o))
        return o

    for i, st in enumerate(prog['stages']):
        op = st['op']
        if op == 'conv':
            T = conv(f'blocks.s{i}.conv', T, st.get('dw', False))
        elif op in ('residual', 'timecat'):
            a = conv(f'blocks.s{i}a.conv', T)
            b = conv(f'blocks.s{i}b.conv', T)
            if a != b:
                issues.append((f's{i}', 'sum-sides-differ' if op == 'residual' else 'timecat-sides-differ', a, b))
            T = [p or q for p, q in zip(a, b)]
        elif op == 'skipadd':
            a = conv(f'blocks.s{i}a.conv', T)
            if a != T:
                issues.append((f's{i}', 'sum-sides-differ', T, a))
            T = [p or q for p, q in zip(a, T)]
        elif op == 'twice':
            T = conv(f'blocks.s{i}a.conv', T)
        elif op == 'concat':
            parts = []
            for j, m in enumerate(st['members']):
                parts += list(T) if m in ('id', 'mp', 'ap') else conv(f'blocks.s{i}m{j}.conv', T, m == 'dwconv')
            T = parts
    hk = prog['head']['kind']
    if hk == 'flatlin':
        exp_in['head.fc'] = [b for b in T for _ in range(flat_mult)]
    elif hk == 'gaplin':
        t1 = conv('head.fc1', T)
        exp_in['head.fc'] = t1
    elif hk == 'flatcat':
        a = conv('head.fa', T)
        b = conv('head.fb', T)
        ma, mb = flat_mult        # (spatial size of the un-pooled branch, of the pooled branch)
        exp_in['head.fc'] = [v for v in a for _ in range(ma)] + [v for v in b for _ in range(mb)]
    elif hk == 'flatadd':
        a = conv('head.fa', T)
        b = conv('head.fb', T)
        if a != b:
            issues.append(('head', 'sum-sides-differ', a, b))
        exp_in['head.fc'] = [p or q for p, q in zip(a, b) for _ in range(flat_mult)]
    else:
        exp_in['head.out'] = list(T)
        if hk == 'fcnadd':
            exp_in['head.out2'] = list(T)
    return exp_in, issues


# ----------------------------------------------------------------------------------------------
# program enumeration (simplest first, complete up to the bound)
# ----------------------------------------------------------------------------------------------
def base_stages(dim):
    st = [
        {'op': 'conv'},
        {'op': 'conv', 'dw': True},
        {'op': 'residual'},
        {'op': 'skipadd'},
        {'op': 'concat', 'members': ['conv', 'conv2']},
        {'op': 'concat', 'members': ['conv', 'id', 'conv2']},
        {'op': 'pool', 'kind': 'max'},
        {'op': 'twice'},
        {'op': 'dropout'},
    ]
    if dim == 1:
        st.append({'op': 'timecat'})
    return st


HEADS = [{'kind': 'flatlin'}, {'kind': 'gaplin'}, {'kind': 'fcn'}]

CONV_OPTS = [{'bias': False}, {'bn': True}, {'bn': True, 'bias': False}, {'bn': True, 'bn_eps': 0.05}, {'pad': 'causalv'}, {'pad': 'causalv', 'k': 5}, {'s': 2}, {'k': 5}, {'k': 1}, {'k': 4}, {'d': 2}, {'pad': 'sym'}, {'pad': 'same'}, {'pad': 'sym', 'pmode': 'reflect'}, {'pad': 'sym', 'pmode': 'circular'}, {'pad': 'same', 'pmode': 'replicate'},
             {'act': 'silu'}, {'act': 'frelu'}, {'act': None}, {'act': 'relu6'}, {'cout': 4}]
HEAD_OPTS = {'flatlin': [{'flat': 'torch'}, {'flat': 'method'}, {'flat': 'torchend'}, {'flat': 'kwend'}, {'flat': 'methodend'}, {'flat': 'negstart'}, {'flat': 'negstartm'}, {'bias': False}, {'post': 'frelu'}, {'post': 'lsm'}],
             'gaplin': [{'flat': 'torch'}, {'flat': 'method'}, {'flat': 'squeeze'}, {'flat': 'squeezepos'}, {'bn': False}, {'hbias': False}, {'post': 'frelu'}, {'bn_eps': 0.05}],
             'fcn': [{'post': 'relu'}, {'post': 'gap'}, {'post': 'frelu'}, {'post': 'lsm'}],
             'fcnadd': [], 'flatadd': [], 'flatcat': []}
POOL_OPTS = [{'kind': 'avg'}, {'kind': 'adaptive'}]


def _origin(stages, i):
    """kind of the op that produced the tensor entering stage i, looking through propagating stages"""
    j = i - 1
    while j >= 0 and stages[j]['op'] in ('pool', 'dropout') :
        j -= 1
    return 'input' if j < 0 else stages[j]['op']


def structure_flags(prog):
    """structural predicates used for scoping (C01) and for known-finding signatures (C09)"""
    fl = set()
    st = prog['stages']
    for i, s in enumerate(st):
        org = _origin(st, i)
        if s['op'] == 'conv' and s.get('dw') and org == 'concat':
            fl.add('cat->dwconv')
        if s['op'] == 'concat' and 'dwconv' in s['members'] and org == 'concat':
            fl.add('cat->dwconv')
        if s['op'] == 'skipadd' and org == 'concat':
            fl.add('cat+conv(cat)')
        if s['op'] == 'conv' and s.get('exclude'):
            fl.add('excluded-layer')
        if (s['op'] == 'skipadd' or (s['op'] == 'conv' and s.get('dw')) or
                (s['op'] == 'concat' and 'dwconv' in s['members'])) and org == 'conv':
            j = i - 1
            while st[j]['op'] in ('pool', 'dropout'):
                j -= 1
            if st[j].get('exclude'):
                fl.add('excluded-output-tied')
        if s['op'] == 'concat' and 'xconv' in s['members']:
            fl.add('excluded-layer')
        if s['op'] == 'concat' and s['members'].count('id') >= 2:
            fl.add('cat-same-tensor-twice')
    return fl


def _size(dim):
    return 8 if dim == 1 else 6


def _valid(prog):
    """weed out programs the healthy code is not meant to support (documented in DESIGN.md 1.2)"""
    npool = sum(1 for s in prog['stages'] if s['op'] == 'pool' or (s['op'] == 'conv' and s.get('s', 1) == 2)
                or (s['op'] == 'twice' and s.get('variant') == 'pool'))
    if npool > (3 if prog['dim'] == 1 else 2):
        return False
    for s in prog['stages']:
        if s['op'] == 'conv' and s.get('dw') and 'cout' in s:
            return False
        if s['op'] == 'conv' and prog['dim'] == 2 and s.get('k', 3) == 4 and s.get('pad') in (None, 'same', 'causal') and s.get('s', 1) == 1:
            pass  # even kernels with 'same' padding are legal in torch (asymmetric padding)
        if s['op'] == 'conv' and s.get('pad') in ('same', 'causalv') and prog['dim'] == 2 and not s.get('pmode'):
            return False  # identical to the 2D default / 1D only
        if s['op'] == 'conv' and s.get('pad') == 'sym' and s.get('k', 3) % 2 == 0:
            return False  # would change the length by one: legal, but a different family
    return True


def gen_base(depth, dims=(1, 2)):
    """all base programs with 1..depth stages x heads x dims, simplest first"""
    out = []
    for n in range(1, depth + 1):
        for dim in dims:
            for combo in __import__('itertools').product(base_stages(dim), repeat=n):
                for h in HEADS:
                    p = {'dim': dim, 'cin': 3, 'size': _size(dim), 'stages': [dict(s) for s in combo], 'head': dict(h)}
                    if _valid(p):
                        out.append(p)
    return out


def option_deviations(prog, with_fold=True):
    """all programs that differ from `prog` in exactly one non-default option"""
    out = []
    for i, s in enumerate(prog['stages']):
        if s['op'] == 'conv':
            for o in CONV_OPTS:
                if s.get('dw') and 'cout' in o:
                    continue
                q = _copy(prog)
                q['stages'][i].update(o)
                out.append(q)
        elif s['op'] in ('residual', 'skipadd', 'twice'):
            for o in ({'bias': False}, {'bn': True}, {'bn': True, 'bias': False}, {'k': 5}, {'k': 4}, {'d': 2}, {'s': 2}):
                if s['op'] == 'skipadd' and 's' in o:
                    continue
                q = _copy(prog)
                q['stages'][i]['a'] = dict(o)
                if s['op'] == 'residual':
                    if 's' in o:
                        q['stages'][i]['b'] = dict(o)   # both branches must keep the same length
                out.append(q)
            if s['op'] in ('residual', 'skipadd'):
                for fn in ('torch', 'kw'):
                    q = _copy(prog)
                    q['stages'][i]['addfn'] = fn
                    out.append(q)
            if s['op'] == 'twice':
                q = _copy(prog)
                q['stages'][i]['variant'] = 'pool'
                out.append(q)
        elif s['op'] == 'pool':
            for o in POOL_OPTS:
                q = _copy(prog)
                q['stages'][i].update(o)
                out.append(q)
        elif s['op'] == 'concat':
            q = _copy(prog)
            q['stages'][i]['k'] = 5
            out.append(q)
            q = _copy(prog)
            q['stages'][i]['negc'] = True
            out.append(q)
            q = _copy(prog)
            q['stages'][i]['catkw'] = True
            out.append(q)
            q = _copy(prog)
            q['stages'][i]['catkw'] = 'axis'
            out.append(q)
        elif s['op'] == 'timecat':
            q = _copy(prog)
            q['stages'][i]['neg'] = True
            out.append(q)
    for o in HEAD_OPTS[prog['head']['kind']]:
        q = _copy(prog)
        q['head'].update(o)
        out.append(q)
    return [q for q in out if _valid(q)]


def has_bn(prog):
    for s in prog['stages']:
        if s.get('bn') or (s.get('a') or {}).get('bn') or (s.get('b') or {}).get('bn'):
            return True
    return prog['head']['kind'] == 'gaplin' and prog['head'].get('bn', True)


def _copy(p):
    import copy
    return copy.deepcopy(p)


def gen_K(kmax=9, fold=True):
    """family K: producer conv -> causally padded target conv (k, d, s, bias, bn) -> flatten -> linear"""
    out = []
    for k in range(1, kmax + 1):
        for d in (1, 2, 3):
            for s in (1, 2):
                for bias in (True, False):
                    for bn in (False, True):
                        size = max(8, 4)
                        out.append({'dim': 1, 'cin': 2, 'size': 8, 'family': 'K',
                                    'stages': [{'op': 'conv', 'cout': 2, 'k': 2},
                                               {'op': 'conv', 'cout': 2, 'k': k, 'd': d, 's': s, 'bias': bias, 'bn': bn}],
                                    'head': {'kind': 'flatlin', 'out': 2}})
    return out


def must_be_full(prog):
    """reference: names of layers whose width is fixed by the network's inputs or outputs"""
    out = set()
    tied = True     # the running tensor is (element-wise) tied to the network input
    for i, st in enumerate(prog['stages']):
        op = st['op']
        if op == 'conv':
            if st.get('dw'):
                if tied:
                    out.add(f'blocks.s{i}.conv')
            else:
                tied = False
        elif op == 'skipadd':
            if tied:
                out.add(f'blocks.s{i}a.conv')
        elif op in ('residual', 'twice', 'timecat'):
            tied = False
        elif op == 'concat':
            for j, m in enumerate(st['members']):
                if m == 'dwconv' and tied:
                    out.add(f'blocks.s{i}m{j}.conv')
            tied = False
    if prog['head']['kind'] == 'flatout':
        last = prog['stages'][-1]
        assert last['op'] == 'conv' and not last.get('dw'), 'flatout is only defined after a plain conv stage'
        out.add(f"blocks.s{len(prog['stages']) - 1}.conv")
        return out
    out.add({'flatlin': 'head.fc', 'gaplin': 'head.fc', 'fcn': 'head.out', 'fcnadd': 'head.out', 'flatadd': 'head.fc', 'flatcat': 'head.fc'}[prog['head']['kind']])
    if prog['head']['kind'] == 'fcnadd':
        out.add('head.out2')
    return out


def gen_special(dims=(1, 2)):
    """targeted structures that need two cooperating options (kept small; every check over G_pit includes them):
    * a Conv(+BN) WITHOUT activation whose output has several consumers (skip taken at the BN output);
    * the network output produced by an add of two searchable layers."""
    out = []
    for dim in dims:
        for o in ({'bn': True, 'act': None}, {'act': None}, {'bn': True, 'act': None, 'bias': False}):
            for nxt in ({'op': 'skipadd'}, {'op': 'residual'}, {'op': 'concat', 'members': ['conv', 'id']}, {'op': 'twice'}):
                for h in (HEADS if nxt['op'] == 'skipadd' else HEADS[:1]):
                    out.append({'dim': dim, 'cin': 3, 'size': _size(dim), 'stages': [dict({'op': 'conv'}, **o), dict(nxt)], 'head': dict(h)})
        for st in ([{'op': 'conv'}], [{'op': 'residual'}], [{'op': 'conv'}, {'op': 'pool', 'kind': 'max'}]):
            out.append({'dim': dim, 'cin': 3, 'size': _size(dim), 'stages': [dict(x) for x in st], 'head': {'kind': 'fcnadd'}})
        # a concat whose operands all have a constant width (the network input and pooled copies of it)
        for mem in (['id', 'mp'], ['mp', 'ap']):
            for h in HEADS[:2]:
                out.append({'dim': dim, 'cin': 3, 'size': _size(dim), 'stages': [{'op': 'concat', 'members': list(mem)}, {'op': 'conv'}], 'head': dict(h)})
        # concat pooling: different nodes that derive from the SAME layer through features-propagating ops
        for mem in (['mp', 'ap'], ['id', 'mp'], ['mp', 'conv', 'ap']):
            for post in ([], [{'op': 'conv'}]):
                for h in HEADS[:2]:
                    out.append({'dim': dim, 'cin': 3, 'size': _size(dim),
                                'stages': [{'op': 'conv'}, {'op': 'concat', 'members': list(mem)}] + [dict(x) for x in post], 'head': dict(h)})
            out.append({'dim': dim, 'cin': 3, 'size': _size(dim), 'stages': [dict(x) for x in st], 'head': {'kind': 'flatadd'}})
            out.append({'dim': dim, 'cin': 3, 'size': _size(dim), 'stages': [dict(x) for x in st], 'head': {'kind': 'flatadd', 'join': 'gap'}})
            out.append({'dim': dim, 'cin': 3, 'size': _size(dim), 'stages': [dict(x) for x in st], 'head': {'kind': 'flatcat'}})
    return [p for p in out if _valid(p)]
