"""G_mps - bounded grammar of MPS-supported 2D networks (programs for pmc.grammar.net2d.Net2d)."""
import itertools

STAGES = [
    {'op': 'conv'},
    {'op': 'conv', 'bn': True},
    {'op': 'conv', 'dw': True},
    {'op': 'residual'},
    {'op': 'skipadd'},
    {'op': 'pool'},
]
HEADS = ['flatlin', 'gaplin', 'linlin']
STAGE_OPTS = [{'bias': False}, {'k': 1}, {'s': 2}, {'act': False}, {'bn': True, 'bias': False}, {'cout': 3},
              {'pm': 'reflect'}, {'pm': 'replicate'}, {'pm': 'circular'}, {'p': 'same'}]


def _valid(p):
    npool = sum(1 for s in p['stages'] if s['op'] == 'pool' or s.get('s', 1) == 2)
    return npool <= 2


def gen(depth, heads=HEADS, with_opts=True):
    out = []
    for n in range(1, depth + 1):
        for combo in itertools.product(STAGES, repeat=n):
            for h in heads:
                p = {'cin': 3, 'size': 6, 'stages': [dict(s) for s in combo], 'head': h}
                if _valid(p):
                    out.append(p)
    if with_opts:
        for st in STAGES[:1]:
            for o in STAGE_OPTS:
                for h in heads[:2]:
                    s = dict(st)
                    s.update(o)
                    out.append({'cin': 3, 'size': 6, 'stages': [s], 'head': h})
                    out.append({'cin': 3, 'size': 6, 'stages': [{'op': 'conv'}, s], 'head': h})
        out.append({'cin': 3, 'size': 6, 'stages': [{'op': 'conv'}], 'head': 'linlin', 'head_bn': True})
        out.append({'cin': 3, 'size': 6, 'stages': [{'op': 'conv', 'dw': True}, {'op': 'conv', 'k': 1}], 'head': 'linlin', 'head_bn': True})
    return out


def gen_twice():
    """a conv invoked at two call sites (same / different resolution; first call on the network input or after another layer)"""
    out = []
    for stages in ([{'op': 'conv'}, {'op': 'twice'}], [{'op': 'conv'}, {'op': 'twice', 'pool': True}],
                   [{'op': 'twice', 'pool': True}], [{'op': 'conv', 'cout': 3}, {'op': 'twice', 'pool': True}, {'op': 'conv', 'k': 1}]):
        for h in ('flatlin', 'gaplin'):
            out.append({'cin': 3, 'size': 6, 'stages': [dict(s) for s in stages], 'head': h})
    return out


def gen_flat(spellings=None, dims=(2, 1)):
    """single-option deviations on the SPELLING of the flatten in front of the head's first Linear (net2d prog['flat']): explicit
    non-negative end_dim (positional / keyword / method / nn.Flatten(1, d + 1)), explicit -1, nn.Flatten(), negative start_dim;
    base programs: conv -> flatten -> linear, conv -> pool -> flatten -> linear -> linear, conv -> gap -> flatten -> linear"""
    from .net2d import FLAT_SPELLINGS
    out = []
    for dim in dims:
        for stages, h in (([{'op': 'conv', 'cout': 3}], 'flatlin'), ([{'op': 'conv'}, {'op': 'pool'}], 'linlin'),
                          ([{'op': 'conv', 'cout': 3}], 'gaplin')):
            for fl in (spellings or FLAT_SPELLINGS):
                p = {'cin': 3, 'size': 6, 'stages': [dict(s) for s in stages], 'head': h, 'flat': fl}
                if dim == 1:
                    p.update(dim=1, size=8)
                out.append(p)
    return out


FCN_HEADS = ['fcn', 'fcnskip', 'dwout']


def gen_fcn(depth=1):
    """fully-convolutional programs: the output is a conv, a sum of convs, or conv -> depthwise + BN (layers in the output-connected
    group have no output quantizer, so their consumers see an un-quantized input)"""
    out = []
    for n in range(0, depth + 1):
        for combo in itertools.product(STAGES[:5], repeat=n):
            for h in FCN_HEADS:
                out.append({'cin': 3, 'size': 6, 'stages': [dict(s) for s in combo], 'head': h})
    return out


def precision_tuples():
    """every non-empty ordered selection without repetition from {2,4,8} (15)"""
    out = []
    for n in (1, 2, 3):
        out += list(itertools.permutations((2, 4, 8), n))
    return out


def selectors(nas):
    """unique searchable selectors (MPS quantizers with more than one alternative), in module order"""
    from plinio.methods.mps.nn.qtz import MPSBaseQtz
    out, seen = [], set()
    for n, m in nas.named_modules():
        if isinstance(m, MPSBaseQtz) and id(m) not in seen and m.alpha.shape[0] > 1:
            seen.add(id(m))
            out.append((n, m))
    return out
