"""G_sn - bounded grammar of SuperNets (programs for pmc.grammar.net2d.Net2d)."""
import itertools

BRANCH_KINDS = ['c3', 'c1', 'seq', 'blk', 'fblk', 'nest', 'dw', 'c5', 'c3nb', 'id']
# user blocks with an internal fork (one layer's output consumed twice inside the branch), see net2d: the fork node is the last / the first
# operand of a residual sum, the last / the first member of a concat, or sits one nesting level down
FORK_KINDS = ['frkl', 'frkf', 'frkcat', 'frkcatf', 'nfrk']


def block(branches, **kw):
    d = {'op': 'sn', 'branches': list(branches)}
    d.update(kw)
    return d


def gen(tier):
    """-> list of programs, simplest first"""
    out = []
    pre = {'op': 'conv', 'cout': 4}
    # one block, every pair / triple of branch kinds
    kinds = BRANCH_KINDS
    for n in (2, 3):
        for br in itertools.combinations(kinds, n):
            out.append({'cin': 3, 'size': 6, 'stages': [pre, block(br)], 'head': 'flatlin'})
    # big blocks 4..12 branches (kinds cycled so that indices 1, 10, 11 are all present and different)
    for n in range(4, 13):
        br = [kinds[i % len(kinds)] for i in range(n)]
        out.append({'cin': 3, 'size': 6, 'stages': [pre, block(br)], 'head': 'gaplin'})
    # a block used twice, block changing the width, block first in the network, pooling in between
    out.append({'cin': 3, 'size': 6, 'stages': [pre, block(['c3', 'blk', 'id'], twice=True)], 'head': 'gaplin'})
    out.append({'cin': 3, 'size': 6, 'stages': [pre, block(['seq', 'fblk', 'nest'], twice=True)], 'head': 'flatlin'})
    out.append({'cin': 3, 'size': 6, 'stages': [block(['c3', 'c1', 'dw'], cout=5), {'op': 'pool'}], 'head': 'flatlin'})
    out.append({'cin': 3, 'size': 6, 'stages': [pre, block(['c5', 'seq'], cout=2), {'op': 'conv', 'cout': 3}], 'head': 'linlin'})
    # two and three blocks
    two = [(['c3', 'c1'], ['seq', 'id', 'blk']), (['id', 'c3', 'c1', 'dw'], ['c1', 'c5']), (['nest', 'c3nb', 'id'], ['fblk', 'c3', 'c1'])]
    for a, b in two:
        out.append({'cin': 3, 'size': 6, 'stages': [pre, block(a), {'op': 'pool'}, block(b)], 'head': 'flatlin'})
    three = [(['c3', 'id'], ['c1', 'seq'], ['blk', 'c3']), (['c3', 'c1', 'id'], ['dw', 'c5', 'id'], ['c1', 'nest', 'id', 'c3'])]
    for a, b, c in three:
        out.append({'cin': 3, 'size': 6, 'stages': [pre, block(a), block(b), {'op': 'pool'}, block(c)], 'head': 'gaplin'})
    # fixed layers whose qualified names EXTEND the name of a choice block (blocks.s1 next to blocks.s1_pw and blocks.s10)
    out.append({'cin': 3, 'size': 6, 'stages': [pre, block(['c3', 'c1', 'id']), {'op': 'conv', 'cout': 4, 'k': 1, 'alias': 's1_pw'},
                                                 {'op': 'conv', 'cout': 3, 'alias': 's10'}], 'head': 'flatlin'})
    out.append({'cin': 3, 'size': 6, 'stages': [pre, block(['seq', 'c5'], twice=True), {'op': 'conv', 'cout': 4, 'k': 1, 'alias': 's1x'}], 'head': 'gaplin'})
    # sampling options and non-uniform coefficients set by the USER on the blocks (hard selection, Gumbel)
    out.append({'cin': 3, 'size': 6, 'alpha_ramp': True, 'stages': [pre, block(['c3', 'c1', 'id'], hard=True)], 'head': 'flatlin'})
    out.append({'cin': 3, 'size': 6, 'alpha_ramp': True, 'stages': [pre, block(['seq', 'c5'], hard=True, twice=True), block(['c1', 'c3'])], 'head': 'gaplin'})
    # down-sampling blocks: the layers of one branch work at different resolutions
    out.append({'cin': 3, 'size': 6, 'stages': [pre, block(['c3s2', 'poolconv', 'convpool'])], 'head': 'flatlin'})
    out.append({'cin': 3, 'size': 6, 'stages': [pre, block(['bneck', 'convpool']), block(['c3', 'c1'])], 'head': 'gaplin'})
    out.append({'cin': 3, 'size': 6, 'stages': [block(['poolconv', 'bneck', 'c3s2'], cout=4, twice=False), {'op': 'conv', 'cout': 3}], 'head': 'flatlin'})
    # a FIXED layer invoked at two call sites (same / different resolution) next to a choice block
    out.append({'cin': 3, 'size': 6, 'stages': [pre, {'op': 'twice', 'pool': True}, block(['c3', 'c1', 'id'])], 'head': 'flatlin'})
    out.append({'cin': 3, 'size': 6, 'stages': [pre, block(['c3', 'seq']), {'op': 'twice'}], 'head': 'gaplin'})
    if tier == 'thorough':
        for n in (4,):
            for br in itertools.combinations(kinds, n):
                out.append({'cin': 3, 'size': 6, 'stages': [pre, block(br)], 'head': 'flatlin'})
        for a, b in itertools.product(itertools.combinations(kinds[:6], 2), repeat=2):
            out.append({'cin': 3, 'size': 6, 'stages': [pre, block(a), block(b, twice=True)], 'head': 'gaplin'})
    return out


def gen_inplace(tier):
    """choice blocks with a user block whose activation is written as a statement-form in-place call (`h.relu_()`): as winner and as loser"""
    pre = {'op': 'conv', 'cout': 4}
    out = [{'cin': 3, 'size': 6, 'stages': [pre, block(['inpl', 'c1'])], 'head': 'flatlin'},
           {'cin': 3, 'size': 6, 'stages': [pre, block(['c3', 'inpl', 'id'])], 'head': 'gaplin'},
           {'cin': 3, 'size': 6, 'stages': [pre, block(['seq', 'inpl'], twice=True)], 'head': 'flatlin'}]
    return out


def gen_fork(tier):
    """-> programs whose choice blocks contain branches with an INTERNAL FORK (a separate list: gen() is shared with other checks).
    Every fork kind meets every other branch kind in a two-branch block (so it is the only loser and the only winner), at both positions;
    blocks of fork kinds only; blocks used twice; two / three blocks; a width-changing block; a block first in the network"""
    out = []
    pre = {'op': 'conv', 'cout': 4}
    for i, f in enumerate(FORK_KINDS):
        for j, k in enumerate(BRANCH_KINDS):
            br = (f, k) if (i + j) % 2 == 0 else (k, f)
            out.append({'cin': 3, 'size': 6, 'stages': [pre, block(br)], 'head': 'flatlin' if j % 2 else 'gaplin'})
    for br in itertools.combinations(FORK_KINDS, 2):
        out.append({'cin': 3, 'size': 6, 'stages': [pre, block(br)], 'head': 'flatlin'})
    out.append({'cin': 3, 'size': 6, 'stages': [pre, block(FORK_KINDS)], 'head': 'gaplin'})
    out.append({'cin': 3, 'size': 6, 'stages': [pre, block(['id'] + FORK_KINDS[::-1] + ['seq'])], 'head': 'flatlin'})
    # blocks used twice (the loser's fork must be gone at BOTH call sites), with and without a fixed layer after them
    out.append({'cin': 3, 'size': 6, 'stages': [pre, block(['frkl', 'c3', 'id'], twice=True)], 'head': 'gaplin'})
    out.append({'cin': 3, 'size': 6, 'stages': [pre, block(['c1', 'frkl'], twice=True)], 'head': 'flatlin'})
    out.append({'cin': 3, 'size': 6, 'stages': [pre, block(['frkcat', 'frkf', 'seq'], twice=True), {'op': 'conv', 'cout': 3}], 'head': 'flatlin'})
    out.append({'cin': 3, 'size': 6, 'stages': [pre, block(['blk', 'nfrk', 'frkcatf'], twice=True)], 'head': 'gaplin'})
    # two and three blocks, fork branches in one or in all of them
    two = [(['frkl', 'c1'], ['frkf', 'frkcat', 'id']), (['c3', 'seq', 'id'], ['nfrk', 'c5']), (['frkcatf', 'frkl', 'fblk'], ['c3', 'c1'])]
    for a, b in two:
        out.append({'cin': 3, 'size': 6, 'stages': [pre, block(a), {'op': 'pool'}, block(b)], 'head': 'flatlin'})
    out.append({'cin': 3, 'size': 6, 'stages': [pre, block(['frkl', 'id'], twice=True), block(['c1', 'frkcat'])], 'head': 'gaplin'})
    out.append({'cin': 3, 'size': 6, 'stages': [pre, block(['frkl', 'id']), block(['c1', 'frkf']), {'op': 'pool'}, block(['frkcat', 'blk', 'c3'])], 'head': 'gaplin'})
    # width-changing blocks, a block first in the network
    out.append({'cin': 3, 'size': 6, 'stages': [block(['frkl', 'c1', 'frkcat'], cout=5), {'op': 'pool'}], 'head': 'flatlin'})
    out.append({'cin': 3, 'size': 6, 'stages': [pre, block(['c5', 'frkf', 'nfrk'], cout=2), {'op': 'conv', 'cout': 3}], 'head': 'linlin'})
    if tier == 'thorough':
        # every fork kind with every PAIR of the other kinds; a twice-used fork block after every pair of plain kinds
        for f in FORK_KINDS:
            for a, b in itertools.combinations(BRANCH_KINDS, 2):
                out.append({'cin': 3, 'size': 6, 'stages': [pre, block((a, f, b))], 'head': 'flatlin'})
        for f in FORK_KINDS:
            for a in itertools.combinations(BRANCH_KINDS[:6], 2):
                out.append({'cin': 3, 'size': 6, 'stages': [pre, block(a), block((f, a[0]), twice=True)], 'head': 'gaplin'})
    return out


def combiners(nas):
    from plinio.methods.supernet.nn.combiner import SuperNetCombiner
    return [(n, m) for n, m in nas.named_modules() if isinstance(m, SuperNetCombiner)]
