"""2D networks for the MPS and SuperNet checks.  Programs are JSON-able:

  {'cin': 3, 'size': 6, 'stages': [...], 'head': 'flatlin'|'gaplin'|'linlin', 'out': 3}

optional 'flat': how the flatten in front of the head's first Linear is SPELLED (absent: torch.flatten(x, 1)); see FLAT_SPELLINGS

stages:
  {'op':'conv','cout','k','bias','bn','dw','s','act','pm'} conv [-> bn] [-> relu]; 'pm' = padding_mode
  {'op':'residual','cout'}                                 relu(convA(T) + convB(T))
  {'op':'skipadd'}                                         relu(T + conv(T))
  {'op':'pool','kind':'max'|'avg'}
  {'op':'relu'}                                            stand-alone ReLU
  {'op':'twice','pool':bool}                                relu(conv(T)) [-> maxpool] -> relu(conv(.)) with the SAME conv (c -> c)
  {'op':'sn','branches':[b...], 'twice': bool | 'pool' (second invocation after a 2x2 max-pooling), 'gumbel': bool, 'hard': bool}
        SuperNetModule; branch kinds: 'c3' conv3x3, 'c1' conv1x1, 'c5' conv5x5, 'seq' Sequential(conv3x3, BN, ReLU),
        'c3s2' / 'poolconv' / 'convpool' / 'bneck': down-sampling branches (stride-2 conv; pool -> conv1x1; conv3x3 -> pool; 1x1 -> strided dw -> 1x1),
        'blk' user block (conv3x3 -> relu -> conv1x1) ending in a sub-module call, 'fblk' user block ending in a functional relu,
        'nest' nested user block (blk inside a wrapper), 'dw' depthwise-separable Sequential, 'id' Identity (needs cin == cout),
        user blocks with an INTERNAL FORK (the output of the first layer is consumed twice inside the branch):
        'frkl' h = stem(x); relu(bn(conv(h)) + h)   (the fork node is the LAST operand of the join), 'frkf' relu(h + bn(conv(h))) (first operand),
        'frkcat' h = stem(x); out(cat([conv(h), h], 1)), 'frkcatf' out(cat([h, conv(h)], 1)), 'nfrk' bn(frkl(x)) (the fork one level down)
"""
import torch
import torch.nn as nn
import torch.nn.functional as F


class Blk(nn.Module):
    def __init__(self, cin, cout):
        super().__init__()
        self.c1 = nn.Conv2d(cin, cout, 3, padding=1)
        self.act = nn.ReLU()
        self.c2 = nn.Conv2d(cout, cout, 1)

    def forward(self, x):
        return self.c2(self.act(self.c1(x)))


class FBlk(nn.Module):
    def __init__(self, cin, cout):
        super().__init__()
        self.c1 = nn.Conv2d(cin, cout, 3, padding=1)

    def forward(self, x):
        return F.relu(self.c1(x))


class Nest(nn.Module):
    def __init__(self, cin, cout):
        super().__init__()
        self.inner = Blk(cin, cout)
        self.bn = nn.BatchNorm2d(cout)

    def forward(self, x):
        return self.bn(self.inner(x))


class Fork(nn.Module):
    """stem conv whose output is consumed twice inside the block: by conv -> bn and by the residual sum that joins them;
    `fork_last`: the fork node is the last (True) / first (False) operand of the join"""
    def __init__(self, cin, cout, fork_last):
        super().__init__()
        self.fork_last = fork_last
        self.stem = nn.Conv2d(cin, cout, 3, padding=1)
        self.conv = nn.Conv2d(cout, cout, 3, padding=1)
        self.bn = nn.BatchNorm2d(cout)

    def forward(self, x):
        h = self.stem(x)
        if self.fork_last:
            return torch.relu(self.bn(self.conv(h)) + h)
        return torch.relu(h + self.bn(self.conv(h)))


class ForkCat(nn.Module):
    """the fork feeds a channel concat (joined with conv(h)), followed by a 1x1 conv: the block ends in a sub-module call"""
    def __init__(self, cin, cout, fork_last):
        super().__init__()
        self.fork_last = fork_last
        self.stem = nn.Conv2d(cin, cout, 1)
        self.conv = nn.Conv2d(cout, cout, 3, padding=1)
        self.out = nn.Conv2d(2 * cout, cout, 1)

    def forward(self, x):
        h = self.stem(x)
        if self.fork_last:
            return self.out(torch.cat([self.conv(h), h], dim=1))
        return self.out(torch.cat([h, self.conv(h)], dim=1))


class NestFork(nn.Module):
    def __init__(self, cin, cout):
        super().__init__()
        self.inner = Fork(cin, cout, True)
        self.bn = nn.BatchNorm2d(cout)

    def forward(self, x):
        return self.bn(self.inner(x))


class InplBlk(nn.Module):
    """user block whose activation is a statement-form in-place method call: the call's own result is not used"""
    def __init__(self, cin, cout):
        super().__init__()
        self.c1 = nn.Conv2d(cin, cout, 3, padding=1)
        self.c2 = nn.Conv2d(cout, cout, 1)

    def forward(self, x):
        h = self.c1(x)
        h.relu_()
        return self.c2(h)


def make_branch(kind, cin, cout):
    if kind == 'inpl':
        return InplBlk(cin, cout)
    if kind == 'frkl':
        return Fork(cin, cout, True)
    if kind == 'frkf':
        return Fork(cin, cout, False)
    if kind == 'frkcat':
        return ForkCat(cin, cout, True)
    if kind == 'frkcatf':
        return ForkCat(cin, cout, False)
    if kind == 'nfrk':
        return NestFork(cin, cout)
    if kind == 'c3':
        return nn.Conv2d(cin, cout, 3, padding=1)
    if kind == 'c1':
        return nn.Conv2d(cin, cout, 1)
    if kind == 'c5':
        return nn.Conv2d(cin, cout, 5, padding=2)
    if kind == 'c3nb':
        return nn.Conv2d(cin, cout, 3, padding=1, bias=False)
    if kind == 'seq':
        return nn.Sequential(nn.Conv2d(cin, cout, 3, padding=1), nn.BatchNorm2d(cout), nn.ReLU())
    if kind == 'dw':
        return nn.Sequential(nn.Conv2d(cin, cin, 3, padding=1, groups=cin), nn.Conv2d(cin, cout, 1))
    if kind == 'blk':
        return Blk(cin, cout)
    if kind == 'fblk':
        return FBlk(cin, cout)
    if kind == 'nest':
        return Nest(cin, cout)
    # down-sampling branches (all halve the resolution): layers of one branch work at DIFFERENT resolutions
    if kind == 'c3s2':
        return nn.Conv2d(cin, cout, 3, stride=2, padding=1)
    if kind == 'poolconv':
        return nn.Sequential(nn.MaxPool2d(2), nn.Conv2d(cin, cout, 1))
    if kind == 'convpool':
        return nn.Sequential(nn.Conv2d(cin, cout, 3, padding=1), nn.ReLU(), nn.MaxPool2d(2))
    if kind == 'bneck':
        return nn.Sequential(nn.Conv2d(cin, cout, 1), nn.ReLU(), nn.Conv2d(cout, cout, 3, stride=2, padding=1, groups=cout), nn.Conv2d(cout, cout, 1))
    if kind == 'id':
        assert cin == cout
        return nn.Identity()
    raise ValueError(kind)


class Net2d(nn.Module):
    def __init__(self, prog):
        super().__init__()
        self.prog = prog
        c = prog['cin']
        # 'dim': 1 builds the same program with Conv1d / BatchNorm1d / 1D pooling on inputs (B, C, size)
        dim = self.dim = prog.get('dim', 2)
        Conv, BN = (nn.Conv1d, nn.BatchNorm1d) if dim == 1 else (nn.Conv2d, nn.BatchNorm2d)
        MaxP, AvgP, GAP = (nn.MaxPool1d, nn.AvgPool1d, nn.AdaptiveAvgPool1d) if dim == 1 else (nn.MaxPool2d, nn.AvgPool2d, nn.AdaptiveAvgPool2d)
        self.blocks = nn.ModuleDict()
        # 'two_in': the network has TWO inputs (each cin channels) joined by 'sum' (x + y), 'convsum' (relu(convA(x) + convB(y))) or 'cat'
        self.two_in = prog.get('two_in')
        if self.two_in == 'convsum':
            self.blocks['ina'] = Conv(c, 4, 3, padding=1)
            self.blocks['inb'] = Conv(c, 4, 1)
            c = 4
        elif self.two_in == 'cat':
            c = 2 * c
        self.c_joined = c
        for i, st in enumerate(prog['stages']):
            op = st['op']
            if op == 'conv':
                dw = st.get('dw', False)
                co = c if dw else st.get('cout', 4)
                k = st.get('k', 3)
                self.blocks[st.get('alias', f's{i}')] = Conv(c, co, k, stride=st.get('s', 1), padding=st.get('p', k // 2),
                                                 groups=c if dw else 1, bias=st.get('bias', True),
                                                 padding_mode=st.get('pm', 'zeros'))
                if st.get('bn'):
                    self.blocks[f's{i}bn'] = BN(co)
                if st.get('act', True):
                    self.blocks[f's{i}act'] = nn.ReLU()
                c = co
            elif op == 'residual':
                co = st.get('cout', 4)
                self.blocks[f's{i}a'] = Conv(c, co, 3, padding=1)
                self.blocks[f's{i}b'] = Conv(c, co, 1)
                c = co
            elif op == 'skipadd':
                self.blocks[f's{i}a'] = Conv(c, c, 3, padding=1)
            elif op == 'pool':
                self.blocks[f's{i}'] = MaxP(2) if st.get('kind', 'max') == 'max' else AvgP(2)
            elif op == 'relu':        # a stand-alone activation (e.g. conv -> BN -> pool -> ReLU orderings)
                self.blocks[f's{i}'] = nn.ReLU()
            elif op == 'dropout':
                self.blocks[f's{i}'] = nn.Dropout(0.3)
            elif op == 'twice':       # one conv (c -> c) invoked at two call sites, optionally at two resolutions
                self.blocks[f's{i}'] = Conv(c, c, st.get('k', 3), padding=st.get('k', 3) // 2)
                if st.get('pool'):
                    self.blocks[f's{i}p'] = MaxP(2)
            elif op == 'sn':
                from plinio.methods.supernet import SuperNetModule
                assert dim == 2, 'choice blocks are generated in 2D only'
                co = st.get('cout', c)
                self.blocks[f's{i}'] = SuperNetModule([make_branch(b, c, co) for b in st['branches']],
                                                      gumbel_softmax=st.get('gumbel', False),
                                                      hard_softmax=st.get('hard', False))
                if st.get('twice') == 'pool':     # second invocation at half the resolution
                    self.blocks[f's{i}p'] = MaxP(2)
                c = co
            else:
                raise ValueError(op)
        self.c_final = c
        self.eval()       # (a BatchNorm in train mode rejects a 1x1 map with batch size 1)
        with torch.no_grad():
            probe = self._features(torch.zeros((1, self.c_joined) + (prog['size'],) * dim))
        self.train()
        h = prog.get('head', 'flatlin')
        out = prog.get('out', 3)
        self.head = nn.ModuleDict()
        if h == 'flatlin':
            self.head['fc'] = nn.Linear(int(probe[0].numel()), out)
        elif h == 'gaplin':
            self.head['gap'] = GAP(1)
            self.head['fc'] = nn.Linear(c, out)
        elif h == 'linlin':
            self.head['fc1'] = nn.Linear(int(probe[0].numel()), 5)
            if prog.get('head_bn'):
                self.head['bn'] = nn.BatchNorm1d(5)
            self.head['relu'] = nn.ReLU()
            self.head['fc'] = nn.Linear(5, out)
        elif h == 'fcn':          # fully convolutional: a 1x1 conv is the network output
            self.head['out'] = Conv(c, out, 1)
        elif h == 'fcnskip':      # the output is produced by a sum: convB(relu(convA(x))) + convA(x)
            self.head['oa'] = Conv(c, out, 3, padding=1)
            self.head['ob'] = Conv(out, out, 3, padding=1)
        elif h == 'dwout':        # conv -> depthwise conv + BN is the output
            self.head['oa'] = Conv(c, out, 1)
            self.head['od'] = Conv(out, out, 3, padding=1, groups=out)
            self.head['obn'] = BN(out)
        else:
            raise ValueError(h)
        # optional spelling of the flatten in front of the first Linear (module forms own a sub-module, registered last)
        if prog.get('flat') == 'module':
            self.head['flatten'] = nn.Flatten()
        elif prog.get('flat') == 'moduleend':
            self.head['flatten'] = nn.Flatten(1, dim + 1)

    def _flat(self, x):
        """the flatten in front of the head's first Linear; every spelling computes the same tensor"""
        fl = self.prog.get('flat')
        if fl is None:
            return torch.flatten(x, 1)
        d = self.dim
        if fl in ('module', 'moduleend'):      # nn.Flatten() / nn.Flatten(1, d + 1)
            return self.head['flatten'](x)
        if fl == 'torchend':                   # explicit non-negative (inclusive) end_dim, positional
            return torch.flatten(x, 1, d + 1)
        if fl == 'kwend':                      # ... as keywords
            return torch.flatten(x, start_dim=1, end_dim=d + 1)
        if fl == 'methodend':                  # ... as a tensor method
            return x.flatten(1, d + 1)
        if fl == 'methodkwend':
            return x.flatten(start_dim=1, end_dim=d + 1)
        if fl == 'method':
            return x.flatten(1)
        if fl == 'torchneg1':                  # explicit end_dim = -1
            return torch.flatten(x, 1, -1)
        if fl == 'negstart':                   # the channel axis spelled with a negative index (-2 in 1D, -3 in 2D)
            return torch.flatten(x, -(d + 1))
        if fl == 'negstartend':                # negative start, explicit non-negative end
            return x.flatten(-(d + 1), d + 1)
        raise ValueError(fl)

    def _features(self, x):
        for i, st in enumerate(self.prog['stages']):
            op = st['op']
            if op == 'conv':
                x = self.blocks[st.get('alias', f's{i}')](x)
                if f's{i}bn' in self.blocks:
                    x = self.blocks[f's{i}bn'](x)
                if f's{i}act' in self.blocks:
                    x = self.blocks[f's{i}act'](x)
            elif op == 'residual':
                x = torch.relu(self.blocks[f's{i}a'](x) + self.blocks[f's{i}b'](x))
            elif op == 'skipadd':
                x = torch.relu(x + self.blocks[f's{i}a'](x))
            elif op in ('pool', 'relu', 'dropout'):
                x = self.blocks[f's{i}'](x)
            elif op == 'twice':
                x = torch.relu(self.blocks[f's{i}'](x))
                if st.get('pool'):
                    x = self.blocks[f's{i}p'](x)
                x = torch.relu(self.blocks[f's{i}'](x))
            elif op == 'sn':
                x = self.blocks[f's{i}'](x)
                if st.get('twice') == 'pool':
                    x = self.blocks[f's{i}'](self.blocks[f's{i}p'](torch.relu(x)))
                elif st.get('twice'):
                    x = self.blocks[f's{i}'](torch.relu(x))
        return x

    def _join(self, x, y):
        if self.two_in == 'sum':
            return x + y
        if self.two_in == 'convsum':
            return torch.relu(self.blocks['ina'](x) + self.blocks['inb'](y))
        return torch.cat((x, y), dim=1)

    def forward(self, x):
        return self._head(self._features(x))

    def _head(self, x):
        h = self.prog.get('head', 'flatlin')
        if h == 'flatlin':
            return self.head['fc'](self._flat(x))
        if h == 'gaplin':
            return self.head['fc'](self._flat(self.head['gap'](x)))
        if h == 'fcn':
            return self.head['out'](x)
        if h == 'fcnskip':
            y = self.head['oa'](x)
            return self.head['ob'](torch.relu(y)) + y
        if h == 'dwout':
            return self.head['obn'](self.head['od'](self.head['oa'](x)))
        x = self.head['fc1'](self._flat(x))
        if 'bn' in self.head:
            x = self.head['bn'](x)
        return self.head['fc'](self.head['relu'](x))


class Net2dTwoIn(Net2d):
    def forward(self, x, y):
        return self._head(self._features(self._join(x, y)))


# spellings of the head's flatten accepted in prog['flat'] (all equivalent on a (B, C, *spatial) tensor)
FLAT_SPELLINGS = ['module', 'moduleend', 'torchend', 'kwend', 'methodend', 'methodkwend', 'method', 'torchneg1', 'negstart', 'negstartend']


def build(prog, seed, positive_input=True):
    g = torch.Generator().manual_seed(2000003 * (seed + 1) + 29)
    torch.manual_seed(seed * 104729 + 7)
    m = Net2dTwoIn(prog) if prog.get('two_in') else Net2d(prog)
    with torch.no_grad():
        for n, p in m.named_parameters():
            if n.endswith('sn_combiner.alpha'):
                if prog.get('alpha_ramp'):      # non-uniform selection coefficients in the USER's model
                    p.copy_(torch.linspace(0.9, 0.1, p.numel()).reshape(p.shape))
                continue
            p.copy_(torch.randn(p.shape, generator=g) * 0.4 + 0.03)
        for mod in m.modules():
            if isinstance(mod, (nn.BatchNorm1d, nn.BatchNorm2d)):
                mod.running_mean.copy_(torch.randn(mod.running_mean.shape, generator=g) * 0.3)
                mod.running_var.copy_(torch.rand(mod.running_var.shape, generator=g) + 0.5)
                mod.weight.copy_(torch.rand(mod.weight.shape, generator=g) + 0.5)
                mod.bias.copy_(torch.randn(mod.bias.shape, generator=g) * 0.3)
    m.eval()
    shape = (3, prog['cin']) + (prog['size'],) * prog.get('dim', 2)
    x = torch.rand(shape, generator=g) if positive_input else torch.randn(shape, generator=g)
    if prog.get('two_in'):
        x = (x, torch.rand(shape, generator=g) if positive_input else torch.randn(shape, generator=g))
    return m, x


def call(net, x):
    """forward of a one- or two-input network on the witness batch returned by build()"""
    return net(*x) if isinstance(x, tuple) else net(x)


def shape_args(prog, x):
    """how the input signature is given to a PLiNIO constructor"""
    if prog.get('two_in'):
        return {'input_example': tuple(t[:1] for t in x)}
    # rotates over the programs (deterministically): the shape, a one-sample example, the whole 3-sample witness batch
    import hashlib
    import json
    via = int(hashlib.sha1(json.dumps(prog, sort_keys=True).encode()).hexdigest(), 16) % 3
    if via == 1:
        return {'input_example': x[:1].clone()}
    if via == 2:
        return {'input_example': x.clone()}
    return {'input_shape': input_shape(prog)}


def input_shape(prog):
    return (prog['cin'],) + (prog['size'],) * prog.get('dim', 2)
