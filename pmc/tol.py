"""Every numeric tolerance used by the checks, with its justification (DESIGN.md section 1).

Outputs of the tiny grammar networks are O(1..100) float32 numbers computed by two different but
mathematically identical op sequences (masked weights vs sliced weights, fused vs separate BN).
Observed round-off on the healthy code is <= ~5e-6 relative; a structural defect (wrong slice, wrong
tap, missing bias) changes outputs by O(1e-2..1) relative.  The margins below sit >= 100x above the
first and >= 100x below the second.
"""
import torch

OUT_RTOL = 2e-4
OUT_ATOL = 2e-4
COST_RTOL = 1e-5      # costs are small integers represented exactly in float32; sums of <= 1e6
COST_ATOL = 1e-3


def out_close(a, b):
    if a.shape != b.shape:
        return False, f'shape {tuple(a.shape)} vs {tuple(b.shape)}'
    if not (torch.isfinite(a).all() and torch.isfinite(b).all()):
        return False, 'non-finite output'
    scale = max(1.0, float(a.abs().max()))
    err = float((a - b).abs().max())
    return err <= OUT_ATOL + OUT_RTOL * scale, f'max|diff|={err:.3e} (scale {scale:.3g})'


def cost_close(a, b):
    a, b = float(a), float(b)
    return abs(a - b) <= COST_ATOL + COST_RTOL * max(abs(a), abs(b)), f'{a} vs {b}'
