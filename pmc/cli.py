import argparse
import os
import sys


def main():
    ap = argparse.ArgumentParser(prog='check')
    ap.add_argument('pid')
    ap.add_argument('--tier', default=os.environ.get('VERIF_TIER', 'quick'), choices=['quick', 'thorough'])
    ap.add_argument('--seed', type=int, default=int(os.environ.get('VERIF_SEED', '0') or 0))
    ap.add_argument('--replay', default=None)
    a = ap.parse_args()
    from . import core
    rc = core.run_check(a.pid.upper(), a.tier, a.seed, a.replay)
    sys.stdout.flush()
    sys.exit(rc)


if __name__ == '__main__':
    main()
