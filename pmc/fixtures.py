"""Small fixed models of the three methods used by the history-explorer checks (C10, C11, C17, C18)."""
import hashlib

import torch
import torch.nn as nn

from .grammar import pit as GP
from .grammar import net2d as G2

PIT_PROGS = {
    # fixed (excluded) first layer, conv+BN, a conv+BN pair invoked twice, BN in the head
    'pit1d': {'dim': 1, 'cin': 3, 'size': 8,
              'stages': [{'op': 'conv', 'exclude': True, 'cout': 3}, {'op': 'conv', 'bn': True, 'k': 5},
                         {'op': 'twice', 'a': {'bn': True}}],
              'head': {'kind': 'gaplin'}},
    # strided conv (frozen RF/dilation), input-connected depthwise (frozen features), residual pair (shared masker)
    'pit1d_frozen': {'dim': 1, 'cin': 3, 'size': 8,
                     'stages': [{'op': 'conv', 'dw': True}, {'op': 'conv', 's': 2, 'k': 5}, {'op': 'residual'}],
                     'head': {'kind': 'flatlin'}},
    # the network output is a flattened conv activation: the last conv is output-tied (frozen features mask)
    'pit1d_flatout': {'dim': 1, 'cin': 3, 'size': 8, 'stages': [{'op': 'conv', 'k': 3}, {'op': 'conv', 'k': 3, 'cout': 4}],
                      'head': {'kind': 'flatout'}},
    # a channel concat whose operands all have a constant width (the network input and a pooled copy of it)
    'pit1d_catin': {'dim': 1, 'cin': 3, 'size': 8, 'stages': [{'op': 'concat', 'members': ['id', 'mp']}, {'op': 'conv', 'bn': True}],
                    'head': {'kind': 'flatlin'}},
    # two flattened branches of different spatial size concatenated in front of the linear layer
    'pit1d_flatcat': {'dim': 1, 'cin': 3, 'size': 8, 'stages': [{'op': 'conv', 'k': 3}], 'head': {'kind': 'flatcat'}},
    'pit2d': {'dim': 2, 'cin': 3, 'size': 6,
              'stages': [{'op': 'conv', 'bn': True}, {'op': 'conv', 'dw': True}, {'op': 'residual'}, {'op': 'pool', 'kind': 'max'}],
              'head': {'kind': 'flatlin'}},
}

MPS_PROGS = {
    'mps_a': {'cin': 3, 'size': 6, 'stages': [{'op': 'conv', 'bn': True, 'cout': 4}, {'op': 'skipadd'}, {'op': 'pool'}],
              'head': 'flatlin'},
    'mps_b': {'cin': 3, 'size': 6, 'stages': [{'op': 'conv', 'cout': 4}, {'op': 'conv', 'dw': True}, {'op': 'pool'}],
              'head': 'linlin'},
}

# two network inputs summed before the first layer: the quantized sum is the only owner of its activation quantizer
MPS_PROGS['mps_twoin'] = {'cin': 3, 'size': 6, 'two_in': 'sum', 'stages': [{'op': 'conv', 'cout': 4}, {'op': 'pool'}], 'head': 'flatlin'}

SN_PROGS = {
    'sn_a': {'cin': 3, 'size': 6, 'stages': [{'op': 'conv', 'cout': 4}, {'op': 'sn', 'branches': ['c3', 'c1', 'seq', 'id']},
                                             {'op': 'pool'}], 'head': 'flatlin'},
    'sn_twice': {'cin': 3, 'size': 6, 'stages': [{'op': 'conv', 'cout': 4}, {'op': 'sn', 'branches': ['c3', 'blk', 'id'], 'twice': True}],
                 'head': 'gaplin'},
    'sn_gumbel': {'cin': 3, 'size': 6, 'stages': [{'op': 'conv', 'cout': 4}, {'op': 'sn', 'branches': ['c3', 'c1', 'c5'], 'gumbel': True},
                                                  {'op': 'sn', 'branches': ['seq', 'dw'], 'gumbel': True, 'cout': 5}],
                  'head': 'flatlin'},
}


def make(method, name, seed, train=False, **kw):
    """-> (nas_model, x, user_model)"""
    if method == 'pit':
        from plinio.methods import PIT
        prog = PIT_PROGS[name]
        model, x = GP.build(prog, seed)
        model.train(train)
        args = dict(input_shape=GP.input_shape(prog), exclude_names=GP.excluded_names(prog))
        args.update(kw)
        return PIT(model, **args), x, model
    if method == 'mps':
        from plinio.methods.mps import MPS
        prog = MPS_PROGS[name]
        model, x = G2.build(prog, seed)
        model.train(train)
        args = G2.shape_args(prog, x)
        args.update(kw)
        return MPS(model, **args), x, model
    if method == 'sn':
        from plinio.methods import SuperNet
        prog = SN_PROGS[name]
        model, x = G2.build(prog, seed)
        model.train(train)
        args = dict(input_shape=G2.input_shape(prog))
        args.update(kw)
        nas = SuperNet(model, **args)
        nas.train(train)
        return nas, x, model
    raise ValueError(method)


def call(net, x):
    return net(*x) if isinstance(x, tuple) else net(x)


def tensor_hash(t):
    t = t.detach().contiguous()
    return hashlib.sha1(t.numpy().tobytes() + str(tuple(t.shape)).encode()).hexdigest()[:12]


def sd_hash(module):
    h = hashlib.sha1()
    for k, v in sorted(module.state_dict().items()):
        h.update(k.encode())
        h.update(v.detach().contiguous().numpy().tobytes())
    return h.hexdigest()[:12]


def flags(module):
    return tuple((n, m.training) for n, m in module.named_modules())


def canon(obj):
    """JSON-able canonical form of summaries (tensors -> lists)"""
    if isinstance(obj, dict):
        return {str(k): canon(v) for k, v in sorted(obj.items(), key=lambda kv: str(kv[0]))}
    if isinstance(obj, (list, tuple)):
        return [canon(v) for v in obj]
    if isinstance(obj, torch.Tensor):
        return [canon(float(v)) for v in obj.detach().flatten().tolist()]
    if isinstance(obj, float):
        # NaN / inf are written as strings so that two identical runs compare equal (NaN != NaN)
        return round(obj, 6) if obj == obj and abs(obj) != float('inf') else str(obj)
    if isinstance(obj, (int, str, bool)) or obj is None:
        return obj
    return str(obj)


def structure(module):
    """hyper-parameter skeleton of a plain / exported network"""
    out = []
    for n, m in module.named_modules():
        d = [n, type(m).__name__]
        for a in ('in_channels', 'out_channels', 'kernel_size', 'stride', 'padding', 'dilation', 'groups',
                  'in_features', 'out_features', 'num_features', 'precision'):
            if hasattr(m, a):
                v = getattr(m, a)
                d.append((a, v if isinstance(v, (int, str, tuple)) else str(v)))
        out.append(tuple(d))
    return tuple(out)


# ----------------------------------------------------------------------------------------------------------------------------
# seed networks whose sub-modules carry ordinary-but-adversarial ATTRIBUTE NAMES (C17): anything that treats state_dict keys as
# strings (prefix stripping with str.replace, 'alpha' in key, key.split('seed.') ...) instead of as paths trips over them.
# Separate entry point (make_adv): make() and the *_PROGS tables above are untouched.
# ----------------------------------------------------------------------------------------------------------------------------
class AdvNamesNet(nn.Module):
    """conv - (conv, BN, ReLU) - conv - conv - conv - BN - GAP - linear; used as PIT and as MPS seed.
    names: 'feature_module' (ends in 'module'), 'module' (IS 'module': keys '<..>.module.0.weight'), 'submodule' = ModuleDict with keys 'conv'
    and 'module' ('submodule.conv', 'submodule.module'), 'seed' (the wrappers keep the converted network in .seed), 'seed_alpha', '_exported_bn'
    (suffix PIT gives to the BatchNorms it re-creates at export), 'alpha' (name of the architectural parameters)"""

    def __init__(self):
        super().__init__()
        self.feature_module = nn.Conv2d(3, 4, 3, padding=1)
        self.module = nn.Sequential(nn.Conv2d(4, 4, 3, padding=1), nn.BatchNorm2d(4), nn.ReLU())
        self.submodule = nn.ModuleDict({'conv': nn.Conv2d(4, 4, 3, padding=1), 'module': nn.Conv2d(4, 4, 1)})
        self.seed = nn.Conv2d(4, 4, 3, padding=1)
        self.seed_alpha = nn.Conv2d(4, 5, 3, padding=1)
        self._exported_bn = nn.BatchNorm2d(5)
        self.pool = nn.AdaptiveAvgPool2d(1)
        self.alpha = nn.Linear(5, 3)

    def forward(self, x):
        x = torch.relu(self.feature_module(x))
        x = self.module(x)
        x = torch.relu(self.submodule['conv'](x))
        x = torch.relu(self.submodule['module'](x))
        x = torch.relu(self.seed(x))
        x = torch.relu(self._exported_bn(self.seed_alpha(x)))
        return self.alpha(torch.flatten(self.pool(x), 1))


class AdvNamesSN(nn.Module):
    """conv - SuperNetModule 'choice_module' - SuperNetModule 'module' - flatten - linear 'alpha'"""

    def __init__(self):
        super().__init__()
        from plinio.methods.supernet import SuperNetModule
        self.feature_module = nn.Conv2d(3, 4, 3, padding=1)
        self.choice_module = SuperNetModule([nn.Conv2d(4, 4, 3, padding=1), nn.Conv2d(4, 4, 1), nn.Identity()])
        self.module = SuperNetModule([nn.Sequential(nn.Conv2d(4, 4, 3, padding=1), nn.BatchNorm2d(4), nn.ReLU()), nn.Conv2d(4, 4, 5, padding=2)])
        self.pool = nn.MaxPool2d(2)
        self.alpha = nn.Linear(4 * 3 * 3, 3)

    def forward(self, x):
        x = torch.relu(self.feature_module(x))
        x = torch.relu(self.choice_module(x))
        x = self.pool(self.module(x))
        return self.alpha(torch.flatten(x, 1))


ADV_MODELS = {'pit': {'adv_names': AdvNamesNet}, 'mps': {'adv_names': AdvNamesNet}, 'sn': {'adv_names_sn': AdvNamesSN}}


def build_adv(method, name, seed):
    """-> (model in eval mode with seeded non-trivial weights and BN statistics, witness batch (3, 3, 6, 6))"""
    g = torch.Generator().manual_seed(3000017 * (seed + 1) + 41)
    torch.manual_seed(seed * 15485863 + 3)
    m = ADV_MODELS[method][name]()
    with torch.no_grad():
        for n, p in m.named_parameters():
            if n.endswith('sn_combiner.alpha'):
                continue
            p.copy_(torch.randn(p.shape, generator=g) * 0.4 + 0.03)
        for mod in m.modules():
            if isinstance(mod, nn.BatchNorm2d):
                mod.running_mean.copy_(torch.randn(mod.running_mean.shape, generator=g) * 0.3)
                mod.running_var.copy_(torch.rand(mod.running_var.shape, generator=g) + 0.5)
                mod.weight.copy_(torch.rand(mod.weight.shape, generator=g) + 0.5)
                mod.bias.copy_(torch.randn(mod.bias.shape, generator=g) * 0.3)
    m.eval()
    x = torch.rand((3, 3, 6, 6), generator=g)
    return m, x


def make_adv(method, name, seed, train=False, **kw):
    """counterpart of make() for the adversarially named seed networks -> (nas_model, x, user_model)"""
    model, x = build_adv(method, name, seed)
    model.train(train)
    args = dict(input_shape=(3, 6, 6))
    args.update(kw)
    if method == 'pit':
        from plinio.methods import PIT
        return PIT(model, **args), x, model
    if method == 'mps':
        from plinio.methods.mps import MPS
        return MPS(model, **args), x, model
    if method == 'sn':
        from plinio.methods import SuperNet
        nas = SuperNet(model, **args)
        nas.train(train)
        return nas, x, model
    raise ValueError(method)
