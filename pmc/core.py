"""pmc core: bootstrap of the code under test, worker pool, runner, evidence, findings, replay.

Contract of a property module (pmc/props/cXX.py):

    PID = 'C15'
    RULE = '...'                       how cases are enumerated, what makes one non-trivial
    ASSUMPTIONS = [...]
    def cases(tier, seed) -> list      JSON-able work items, simplest first, complete for the tier bound
    def run_case(case, seed) -> dict   executes the case on the real code; returns
         states, transitions           distinct abstract states visited / moves executed in this case
         evals                         executions compared with the reference model
         nontrivial                    list of hashable keys of distinct non-trivial sub-cases
         outcomes                      list of outcome-class strings seen (vacuity guard)
         violations                    list of {kind, sig, msg, case}  (case = minimal replayable item)
         sample                        optional written-out example of what was explored
         cap                           optional string when an inner cap was hit
    def bounds(tier) -> dict           the bound description that goes into the evidence
"""
import hashlib
import importlib
import json
import multiprocessing as mp
import os
import subprocess
import sys
import time
import traceback

VERIF = os.path.dirname(os.path.dirname(os.path.abspath(__file__)))
REPO = os.environ.get('VERIF_REPO', '/repo')
# evidence/ and replays/ describe /repo itself: a run against another tree ($VERIF_REPO: a scratch worktree carrying a seeded change)
# writes its evidence and replay files next to that tree instead, so that it can neither overwrite nor be mistaken for the real ones
_OUT = VERIF if REPO == '/repo' else os.path.join(REPO, '.verif_out')
EVIDENCE_DIR = os.path.join(_OUT, 'evidence')
REPLAY_DIR = os.path.join(_OUT, 'replays')
FINDINGS_FILE = os.path.join(VERIF, 'KNOWN_FINDINGS.txt')
LEVEL = 'model_checking'


# ----------------------------------------------------------------------------------------------
# bootstrap: import the tree under test, own the nondeterminism
# ----------------------------------------------------------------------------------------------
_BOOT = False


def bootstrap():
    """Import torch + plinio from REPO (asserted), single-threaded, deterministic."""
    global _BOOT
    if _BOOT:
        return
    sys.dont_write_bytecode = True
    if REPO != '/repo':
        sys.path.insert(0, REPO)
    else:
        # editable install points at /repo already; make it explicit anyway
        if '/repo' not in sys.path:
            sys.path.insert(0, '/repo')
    import torch
    torch.set_num_threads(1)
    try:
        torch.set_num_interop_threads(1)
    except RuntimeError:
        pass
    torch.use_deterministic_algorithms(False)
    import plinio
    root = os.path.realpath(os.path.dirname(plinio.__file__))
    want = os.path.realpath(os.path.join(REPO, 'plinio'))
    if root != want:
        raise RuntimeError(f'plinio imported from {root}, expected {want}')
    _BOOT = True


def tree_hash():
    h = hashlib.sha256()
    base = os.path.join(REPO, 'plinio')
    for dp, dn, fn in sorted(os.walk(base)):
        dn.sort()
        for f in sorted(fn):
            if f.endswith('.py'):
                p = os.path.join(dp, f)
                h.update(os.path.relpath(p, base).encode())
                with open(p, 'rb') as fh:
                    h.update(fh.read())
    return h.hexdigest()[:16]


def seed_all(seed):
    import random
    import torch
    import numpy as np
    random.seed(seed)
    np.random.seed(seed % (2 ** 32))
    torch.manual_seed(seed)


# ----------------------------------------------------------------------------------------------
# known findings
# ----------------------------------------------------------------------------------------------
def load_findings(pid):
    """-> dict sig -> description, for `finding:` lines of this property."""
    out = {}
    if not os.path.exists(FINDINGS_FILE):
        return out
    with open(FINDINGS_FILE) as fh:
        for line in fh:
            line = line.strip()
            if not line.startswith('finding:'):
                continue
            body = line[len('finding:'):].strip()
            head, _, desc = body.partition('::')
            fields = dict(tok.split('=', 1) for tok in head.split() if '=' in tok)
            if fields.get('property') == pid and 'sig' in fields:
                out[fields['sig']] = desc.strip()
    return out


# ----------------------------------------------------------------------------------------------
# worker pool
# ----------------------------------------------------------------------------------------------
_MOD = None


def _worker_init(modname):
    global _MOD
    bootstrap()
    _MOD = importlib.import_module(modname)
    if hasattr(_MOD, 'worker_init'):
        _MOD.worker_init()


def _worker_run(args):
    idx, case, seed = args
    t0 = time.time()
    try:
        res = _MOD.run_case(case, seed)
    except Exception:  # a crash of the harness itself is never silently dropped
        res = {'states': 0, 'transitions': 0, 'evals': 0, 'nontrivial': [], 'outcomes': ['harness-error'],
               'violations': [{'kind': 'harness-error', 'sig': 'harness-error',
                               'msg': traceback.format_exc()[-1500:], 'case': case}]}
    res['_idx'] = idx
    res['_wall'] = time.time() - t0
    return res


def nworkers():
    n = int(os.environ.get('VERIF_JOBS', '0') or 0)
    if n <= 0:
        n = min(16, os.cpu_count() or 1)
    return n


def run_pool(modname, cases, seed, budget_s):
    """Run all cases; returns (results sorted by index, n_done, cap_reason|None)."""
    jobs = [(i, c, seed) for i, c in enumerate(cases)]
    n = min(nworkers(), max(1, len(jobs)))
    t0 = time.time()
    results = []
    cap = None
    if n == 1 or len(jobs) == 1:
        _worker_init(modname)
        for j in jobs:
            results.append(_worker_run(j))
            if time.time() - t0 > budget_s:
                cap = f'wall budget {budget_s}s hit after {len(results)}/{len(jobs)} cases'
                break
    else:
        ctx = mp.get_context('fork')
        pool = ctx.Pool(n, initializer=_worker_init, initargs=(modname,))
        try:
            it = pool.imap_unordered(_worker_run, jobs, chunksize=1)
            while True:
                left = budget_s - (time.time() - t0)
                try:
                    r = it.next(timeout=max(1.0, left))
                except StopIteration:
                    break
                except mp.TimeoutError:
                    cap = f'wall budget {budget_s}s hit after {len(results)}/{len(jobs)} cases'
                    break
                results.append(r)
        finally:
            pool.terminate()
            pool.join()
    results.sort(key=lambda r: r['_idx'])
    return results, len(results), cap


# ----------------------------------------------------------------------------------------------
# evidence
# ----------------------------------------------------------------------------------------------
def _validate_evidence(path):
    schema = '/root/.vp/EVIDENCE.schema.json'
    py = '/opt/veriftools/pyvenv/bin/python'
    if not (os.path.exists(schema) and os.path.exists(py)):
        return None
    code = ("import json,sys,jsonschema;"
            "jsonschema.validate(json.load(open(sys.argv[1])),json.load(open(sys.argv[2])))")
    try:
        p = subprocess.run([py, '-c', code, path, schema], capture_output=True, text=True, timeout=60)
    except Exception as e:  # pragma: no cover
        return f'validator could not run: {e}'
    return None if p.returncode == 0 else p.stderr[-800:]


def jsonable(x):
    try:
        json.dumps(x)
        return x
    except TypeError:
        return repr(x)


def write_evidence(pid, payload):
    os.makedirs(EVIDENCE_DIR, exist_ok=True)
    path = os.path.join(EVIDENCE_DIR, f'{pid}.json')
    tmp = path + '.tmp'
    with open(tmp, 'w') as fh:
        json.dump(payload, fh, indent=1, sort_keys=True, default=repr)
    os.replace(tmp, path)
    err = _validate_evidence(path)
    if err:
        print(f'ERROR evidence file does not validate: {err}')
        return False
    return True


# ----------------------------------------------------------------------------------------------
# runner
# ----------------------------------------------------------------------------------------------
def canon_case(case):
    return json.dumps(case, sort_keys=True, default=repr)


def _replay_once(mod, case, seed):
    res = mod.run_case(case, seed)
    return sorted((v['sig'], v['kind']) for v in res['violations'])


def run_check(pid, tier, seed, replay=None):
    bootstrap()
    modname = f'pmc.props.{pid.lower()}'
    mod = importlib.import_module(modname)
    known = load_findings(pid)
    t0 = time.time()

    if replay is not None:
        with open(replay) as fh:
            rp = json.load(fh)
        if hasattr(mod, 'worker_init'):
            mod.worker_init()
        res = mod.run_case(rp['case'], rp.get('seed', seed))
        bad = 0
        for v in res['violations']:
            if v['sig'] in known:
                print(f"KNOWN-FINDING: property={pid} {known[v['sig']]} [sig={v['sig']}]")
            else:
                bad += 1
                print(f"  {v['kind']}: {v['msg']}")
        if bad:
            print(f'VIOLATION property={pid} replay={replay}')
            return 1
        print(f'OK property={pid} replay={replay} does not violate on this tree')
        return 0

    default_budget = {'quick': 600, 'thorough': 7200}[tier]
    budget = float(os.environ.get('VERIF_BUDGET_S', default_budget))
    cases = mod.cases(tier, seed)
    results, ndone, cap = run_pool(modname, cases, seed, budget)

    states = sum(r['states'] for r in results)
    transitions = sum(r['transitions'] for r in results)
    evals = sum(r['evals'] for r in results)
    nontrivial = set()
    outcomes = {}
    caps = [cap] if cap else []
    samples = []
    viols = []
    for r in results:
        for k in r.get('nontrivial', []):
            nontrivial.add(k if isinstance(k, str) else canon_case(k))
        for o in r.get('outcomes', []):
            outcomes[o] = outcomes.get(o, 0) + 1
        if r.get('cap'):
            caps.append(r['cap'])
        if r.get('sample') is not None and len(samples) < 6:
            samples.append(jsonable(r['sample']))
        viols.extend(r['violations'])
    if not samples and cases:
        samples.append(jsonable(cases[0]))

    # group violations by signature, smallest (first found) representative
    by_sig = {}
    for v in viols:
        by_sig.setdefault(v['sig'], []).append(v)
    new_sigs = [s for s in by_sig if s not in known]
    exit_code = 0
    known_counts = {}
    for s in sorted(by_sig):
        if s in known:
            known_counts[s] = len(by_sig[s])
            print(f"KNOWN-FINDING: property={pid} {known[s]} [sig={s}; {len(by_sig[s])} matching cases]")
    replay_files = []
    if new_sigs:
        os.makedirs(os.path.join(REPLAY_DIR, pid), exist_ok=True)
        if hasattr(mod, 'worker_init'):
            mod.worker_init()
        for s in sorted(new_sigs)[:25]:
            v = by_sig[s][0]
            # determinism guard: replay twice
            try:
                a = _replay_once(mod, v['case'], seed)
                b = _replay_once(mod, v['case'], seed)
                repro = (a == b) and any(x[0] == s for x in a)
            except Exception:
                repro = False
                a = b = traceback.format_exc()[-400:]
            h = hashlib.sha1((s + canon_case(v['case'])).encode()).hexdigest()[:10]
            path = os.path.join(REPLAY_DIR, pid, f'{h}.json')
            with open(path, 'w') as fh:
                json.dump({'property': pid, 'seed': seed, 'sig': s, 'kind': v['kind'], 'msg': v['msg'],
                           'case': v['case'], 'reproduced_twice': repro, 'tree': tree_hash()},
                          fh, indent=1, default=repr)
            replay_files.append(path)
            print(f"  [{s}] {v['kind']}: {str(v['msg'])[:600]}" + ('' if repro else '  (NOT reproduced identically on replay!)'))
            print(f'VIOLATION property={pid} replay={path}')
        exit_code = 1

    wall = time.time() - t0
    exhaustive = (not caps) and ndone == len(cases)
    b = mod.bounds(tier) if hasattr(mod, 'bounds') else {}
    payload = {
        'property_id': pid, 'tier': tier, 'seed': int(seed), 'level': LEVEL,
        'coverage': {
            'states': int(states), 'transitions': int(transitions),
            'traces_validated_against_impl': int(evals),
            'evaluations': int(evals), 'distinct_nontrivial': len(nontrivial),
            'rule': mod.RULE, 'samples': samples, 'exhaustive': bool(exhaustive),
            'cases_total': len(cases), 'cases_done': ndone, 'caps_hit': caps,
            'bounds': b, 'distinct_outcomes': outcomes,
            'known_finding_matches': known_counts,
            'explanation': ('explicit-state / bounded-exhaustive exploration executed on the real code; every explored '
                            'state is compared with the reference model, so traces_validated_against_impl == evaluations'),
            'tree_hash': tree_hash(), 'repo': REPO, 'workers': nworkers(),
        },
        'assumptions': list(getattr(mod, 'ASSUMPTIONS', [])),
        'wall_s': round(wall, 2),
        'violations': len(new_sigs),
    }
    ok = write_evidence(pid, payload)
    print(f"{pid} tier={tier} seed={seed} cases={ndone}/{len(cases)} states={states} transitions={transitions} "
          f"validated={evals} nontrivial={len(nontrivial)} outcomes={len(outcomes)} exhaustive={exhaustive} "
          f"known={sum(known_counts.values())} new_violations={len(new_sigs)} wall={wall:.1f}s")
    if states == 0 or evals == 0:
        print(f'ERROR vacuous run: nothing explored')
        return 2
    if not ok:
        return 2
    return exit_code
