"""History explorer: explicit-state BFS over operation sequences.

A state is identified by the operation history that reaches it.  Live torch.fx GraphModules do not copy
reliably, so the state object is rebuilt for every explored history by replaying it on a freshly constructed
real model (`run(hist)`), which also evaluates the oracle for the LAST transition of the history and returns a
canonical abstract state.  Histories whose abstract state has been seen before are not expanded (closure);
the search stops at closure or at the depth bound, whichever comes first, and says which.
"""
import collections


def bfs(run, alphabet, depth, only=None, max_states=None):
    """run(hist: tuple) -> dict(key=hashable canonical abstract state, violations=[...], outcome=str)
    alphabet(hist) -> iterable of ops enabled after hist
    only: a single history (tuple) - replay mode: run exactly its prefixes.
    Returns dict(states, transitions, violations, closed, depth_reached, outcomes, keys)."""
    if only is not None:
        viol, outs, nst = [], collections.Counter(), 0
        for i in range(0, len(only) + 1):
            r = run(tuple(only[:i]))
            nst += 1
            outs[r.get('outcome', 'ok')] += 1
            if i == len(only):
                viol += r['violations']
        return {'states': nst, 'transitions': len(only), 'violations': viol, 'closed': False,
                'depth_reached': len(only), 'outcomes': dict(outs), 'executions': nst}
    r0 = run(())
    seen = {r0['key']: ()}
    viol = list(r0['violations'])
    outs = collections.Counter([r0.get('outcome', 'ok')])
    frontier = [()]
    transitions = 0
    executions = 1
    d = 0
    closed = False
    capped = False
    while frontier and d < depth:
        nxt = []
        for hist in frontier:
            for op in alphabet(hist):
                h2 = hist + (op,)
                r = run(h2)
                executions += 1
                transitions += 1
                outs[r.get('outcome', 'ok')] += 1
                viol += r['violations']
                if r['key'] not in seen:
                    seen[r['key']] = h2
                    nxt.append(h2)
                if max_states is not None and len(seen) >= max_states:
                    capped = True
                    break
            if capped:
                break
        if capped:
            break
        frontier = nxt
        d += 1
        if not frontier:
            closed = True
    return {'states': len(seen), 'transitions': transitions, 'violations': viol, 'closed': closed, 'capped': capped,
            'depth_reached': d, 'outcomes': dict(outs), 'executions': executions,
            'sample_histories': [list(map(str, h)) for h in list(seen.values())[-3:]]}
