#!/usr/bin/env python3
"""Regenerates MANIFEST.json from the table below (kept in one place so the file stays valid)."""
import json, os
HERE = os.path.dirname(os.path.abspath(__file__))
CHECKS = json.load(open(os.path.join(HERE, 'manifest_checks.json')))
m = {
    "version": 1,
    "setup_cmd": "cd /verif && ./setup.sh",
    "hooks": {"guard": "PLINIO_VERIF", "enable": "no source hooks are needed: checks import /repo's working tree in-process (PLINIO_VERIF is reserved and unused)",
              "baseline_off_cmd": "cd /repo && /venv/bin/python -m pytest -ra -q -p no:cacheprovider --timeout=900 --continue-on-collection-errors",
              "source_commits": [], "add_only": True},
    "engines": [
        {"name": "pmc-history", "path": "/verif/pmc", "serves_properties": CHECKS["history"],
         "kind_free_text": "hand-written explicit-state BFS over operation histories, each replayed on a freshly built real plinio object, canonical abstract state hashing, reference model compared on every state"},
        {"name": "pmc-lattice", "path": "/verif/pmc", "serves_properties": CHECKS["lattice"],
         "kind_free_text": "hand-written deviation-bounded exhaustive enumeration over (grammar program x abstract configuration) executed on the real plinio code, reference model / edge invariants on every configuration"},
    ],
    "checks": [], "not_applicable": CHECKS["not_applicable"],
    "notes": "All checks: ./check <id> [--tier quick|thorough] [--replay file]; VERIF_SEED picks real-valued witnesses only, the enumerated abstract space is seed-independent. Known findings: /verif/KNOWN_FINDINGS.txt.",
}
for c in CHECKS["checks"]:
    pid = c["id"]
    m["checks"].append({
        "property_id": pid,
        "quick_cmd": f"./check {pid} --tier quick",
        "thorough_cmd": f"./check {pid} --tier thorough",
        "evidence_file": f"/verif/evidence/{pid}.json",
        "replay_cmd_template": f"./check {pid} --replay {{path}}",
        "engine": c["engine"],
        "level_claimed": {"category": "model_checking", "text": c["text"], "design_ref": c["design_ref"]},
        "level_note": c["note"],
        "technique": c["technique"],
    })
json.dump(m, open(os.path.join(HERE, 'MANIFEST.json'), 'w'), indent=1)
print('checks:', [c['property_id'] for c in m['checks']], 'n/a:', [c['property_id'] for c in m['not_applicable']])
