#!/usr/bin/env python3
"""Refresh the numeric columns of DESIGN.md section 9.2 (cases / states / transitions / wall) from the committed evidence files
(quick tier) and append the session-3 additions to the description column (idempotent).  Usage: ./tools_design_table.py [--write]"""
import json, re, sys
ADD = {
 'C01': 'a third of the programs explored on a deep copy; padding modes, negative flatten start, cat(axis=); 9 hand-written models (tied weights, prefix names, 2D front-end + squeeze, shared ConstantPad1d with receptive-field labels)',
 'C02': 'summary() read before any forward AND after the export; quantizers configured through qinfo (asymmetric weights, PACT clip) on depth-1 programs',
 'C03': 'fork / statement-form in-place user blocks; exported fx graph walked (no loser node, no dangling node); a third of the programs on a deep copy',
 'C04': 'three usage protocols rotating over the programs (plain / train_net_only first / train switches off)',
 'C05': 'deep-copy protocol; flatten spellings in front of the Linear head',
 'C06': 'five protocols on the live object (cost_specification setter single / dict, train_selection off / on); choice blocks invoked at two resolutions (finding D45)',
 'C07': 'padding modes (reflect / circular / replicate)',
 'C08': 'four usage protocols rotating (train_net_only first / no_grad evaluation loop / switches off); summary read BEFORE the export compared with it; 14 hand-written output-structure models (concat / nested concat / tuple outputs)',
 'C12': 'ODiMO_MPS (default cost + reduction, w in {2,8}, a = 8) through the soft-mode oracle; PIT lattice on a deep copy; export() between two cost reads',
 'C13': 'single-element channels also as a 1-D weight tensor',
 'C14': 'integerized-cold protocol (clip values written / loaded, integerize_arch before any inference)',
 'C15': 'user constraint over a non-scalar spec field; constrained pattern registered with the default function object',
 'C17': 'seed networks with adversarial attribute names, strict load first',
 'C18': 'no-bias metrics in the specification letters; observers between the forward and the backward pass of a training step',
 'C19': 'one shared DUCCIO instance called in four other visiting orders; unconstrained (+inf) targets',
}
p = '/verif/DESIGN.md'
s = open(p).read()
out = []
for line in s.split('\n'):
    m = re.match(r'^\| (C\d\d) \| ([^|]+) \| ([^|]+) \| ([^|]+) \| ([^|]+) \| ([^|]+) \| (.*) \|$', line)
    if m and '### 9.2' in s[:s.index(line)] and '### 9.3' not in s[:s.index(line)]:
        pid = m.group(1)
        try:
            d = json.load(open(f'/verif/evidence/{pid}.json'))
        except Exception:
            out.append(line); continue
        c = d['coverage']
        fmt = lambda n: f'{int(n):,}'.replace(',', ' ')
        cases = c.get('cases_done', m.group(3).strip())
        desc = m.group(7)
        if pid in ADD and ADD[pid] not in desc:
            desc = desc + '; **session 3:** ' + ADD[pid]
        wall = d.get('wall_s')
        line = f"| {pid} | {m.group(2).strip()} | {fmt(cases) if str(cases).isdigit() or isinstance(cases, (int, float)) else cases} | {fmt(c['states'])} | {fmt(c['transitions'])} | {round(wall) if wall else '?'} s | {desc} |"
    out.append(line)
new = '\n'.join(out)
if '--write' in sys.argv:
    open(p, 'w').write(new)
else:
    for a, b in zip(s.split('\n'), out):
        if a != b:
            print(b[:200])
