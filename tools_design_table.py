#!/usr/bin/env python3
"""Print the 'states / transitions' columns of DESIGN.md section 9.2 from the committed evidence files (quick tier)."""
import json, glob
for f in sorted(glob.glob('/verif/evidence/C*.json')):
    d = json.load(open(f))
    c = d['coverage']
    print(d['property_id'], d['tier'], {k: c.get(k) for k in ('states', 'transitions', 'validated', 'nontrivial', 'cases') if k in c} or list(c.keys())[:12])
