#!/usr/bin/env python3
"""Confirm that the pinned test suite still passes with a seeded change applied:
   ./tools_seeded_suite.py <seeded-id> [...]   (scratch worktree outside /repo and /verif, removed afterwards)
Result is written into /verif/seeded/<id>/meta.json under 'suite'."""
import json, os, subprocess, sys, tempfile, shutil

def sh(cmd, **kw):
    return subprocess.run(cmd, shell=True, capture_output=True, text=True, **kw)

for sid in sys.argv[1:]:
    d = f'/verif/seeded/{sid}'
    wt = tempfile.mkdtemp(prefix=f'suite_{sid}_', dir='/tmp'); os.rmdir(wt)
    assert sh(f'git -C /repo worktree add -q --detach {wt} HEAD').returncode == 0
    try:
        assert sh(f'git -C {wt} apply {d}/patch.diff').returncode == 0
        env = dict(os.environ, PYTHONPATH=wt, OMP_NUM_THREADS='2', MKL_NUM_THREADS='2')
        xml = f'/tmp/junit_{sid}.xml'
        r = sh(f'cd {wt} && /venv/bin/python -m pytest -ra -q -p no:cacheprovider --timeout=900 --continue-on-collection-errors --junitxml={xml}', env=env)
        c = sh(f'/verif/tools_compare_baseline.py {xml}')
        res = c.stdout.strip().splitlines()
        suite = {'summary': res[0] if res else 'no output', 'missing': [l.strip() for l in res[1:]], 'pytest_tail': r.stdout.strip().splitlines()[-1:]}
        if os.environ.get('SUITE_SEPARATE'):
            # (another tool is rewriting meta.json right now: park the result, merged later by tools_merge_suite.py)
            json.dump({'suite': suite, 'kept': c.returncode == 0}, open(f'{d}/suite.json', 'w'), indent=1)
        else:
            meta = json.load(open(f'{d}/meta.json'))
            meta['suite'] = suite
            meta['kept'] = (c.returncode == 0)
            json.dump(meta, open(f'{d}/meta.json', 'w'), indent=1)
        print(sid, suite['summary'], suite['missing'][:3])
        os.remove(xml)
    finally:
        sh(f'git -C /repo worktree remove --force {wt}')
        shutil.rmtree(wt, ignore_errors=True)
