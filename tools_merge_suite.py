#!/usr/bin/env python3
"""Merge parked suite results (seeded/<id>/suite.json) into meta.json."""
import glob, json, os
for f in sorted(glob.glob('/verif/seeded/*/suite.json')):
    d = os.path.dirname(f)
    meta = json.load(open(d + '/meta.json'))
    meta.update(json.load(open(f)))
    json.dump(meta, open(d + '/meta.json', 'w'), indent=1)
    os.remove(f)
    print(os.path.basename(d), meta['suite']['summary'])
