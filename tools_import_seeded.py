#!/usr/bin/env python3
"""Import a sub-agent's deliverable as /verif/seeded/<id>/:  ./tools_import_seeded.py <id> <worktree> <m1|m2> <property> <checks,comma> <needs text> [source]"""
import json, os, shutil, sys
sid, wt, m, prop, checks, needs = sys.argv[1:7]
source = sys.argv[7] if len(sys.argv) > 7 else 'fresh sub-agent given only the property text, the list of ideas already used and its own scratch worktree'
d = f'/verif/seeded/{sid}'
os.makedirs(d, exist_ok=True)
shutil.copy(f'{wt}/{m}.diff', f'{d}/patch.diff')
shutil.copy(f'{wt}/{m}_demo.py', f'{d}/demo.py')
if os.path.exists(f'{wt}/{m}.md'):
    shutil.copy(f'{wt}/{m}.md', f'{d}/notes.md')
json.dump({'id': sid, 'property': prop, 'checks_expected': checks.split(','), 'needs': needs, 'source': source}, open(f'{d}/meta.json', 'w'), indent=1)
print(sid, 'imported')
