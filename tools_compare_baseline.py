#!/usr/bin/env python3
"""compare a junit xml with the stable_pass list of /root/.vp/BASELINE.json"""
import json, sys, xml.etree.ElementTree as ET
base = json.load(open('/root/.vp/BASELINE.json'))
stable = set(base['stable_pass'])
t = ET.parse(sys.argv[1])
passed = set()
for tc in t.iter('testcase'):
    ok = not any(ch.tag in ('failure', 'error', 'skipped') for ch in tc)
    if ok:
        passed.add(f"{tc.get('classname')}::{tc.get('name')}")
missing = sorted(stable - passed)
print(f'stable_pass={len(stable)} passed_now={len(passed)} missing={len(missing)} extra={len(passed - stable)}')
for m in missing:
    print('  MISSING', m)
sys.exit(1 if missing else 0)
