#!/bin/bash
# offline setup: nothing to build (pure Python run by /venv/bin/python); just sanity-check the tool chain
set -e
cd "$(dirname "$0")"
mkdir -p evidence replays
/venv/bin/python -c "import torch, networkx, plinio, os; assert os.path.realpath(plinio.__file__).startswith('/repo/'), plinio.__file__"
echo setup ok
