#!/usr/bin/env python3
"""Run checks against a seeded change:  ./tools_seeded.py <seeded-id> [check ids...] [--tier quick]
Applies /verif/seeded/<id>/patch.diff to a scratch worktree of /repo (outside /repo and /verif), runs the demonstration
(must FAIL with the patch, PASS without) and the listed checks with VERIF_REPO pointing at the worktree, prints a summary and
removes the worktree.  With --in-repo the patch is applied to /repo itself (git apply / git checkout -- .) as the brief prescribes
for the final confirmation."""
import json, os, subprocess, sys, tempfile, shutil, time

def sh(cmd, **kw):
    return subprocess.run(cmd, shell=True, capture_output=True, text=True, **kw)

def main():
    args = [a for a in sys.argv[1:] if not a.startswith('--')]
    flags = [a for a in sys.argv[1:] if a.startswith('--')]
    sid = args[0]
    d = f'/verif/seeded/{sid}'
    meta = json.load(open(f'{d}/meta.json'))
    checks = args[1:] or meta.get('checks_expected', [meta['property']])
    if '--first-only' in flags:
        checks = checks[:1]
    tier = 'thorough' if '--thorough' in flags else 'quick'
    in_repo = '--in-repo' in flags
    if in_repo:
        wt = '/repo'
        assert sh('git -C /repo status --porcelain').stdout.strip() == '', '/repo not clean'
    else:
        wt = tempfile.mkdtemp(prefix=f'seed_{sid}_', dir='/tmp')
        os.rmdir(wt)
        r = sh(f'git -C /repo worktree add -q --detach {wt} HEAD')
        assert r.returncode == 0, r.stderr
    out = {'seeded': sid, 'tier': tier, 'results': {}}
    try:
        demo = f'{d}/{meta.get("demo", "demo.py")}'
        env = dict(os.environ, PYTHONPATH=wt, OMP_NUM_THREADS='2')
        r0 = sh(f'cd {wt} && /venv/bin/python {demo}', env=env)
        r = sh(f'git -C {wt} apply {d}/patch.diff')
        assert r.returncode == 0, 'patch does not apply: ' + r.stderr
        r1 = sh(f'cd {wt} && /venv/bin/python {demo}', env=env)
        out['demo_without_patch'] = r0.returncode
        out['demo_with_patch'] = r1.returncode
        for c in checks:
            t = time.time()
            env2 = dict(os.environ, VERIF_REPO=wt)
            if in_repo:
                env2.pop('VERIF_REPO')
            r = sh(f'cd /verif && ./check {c} --tier {tier}', env=env2)
            viol = [l for l in r.stdout.splitlines() if l.startswith('VIOLATION')]
            sigs = [l.strip()[:200] for l in r.stdout.splitlines() if l.startswith('  [')]
            out['results'][c] = {'exit': r.returncode, 'violations': len(viol), 'first': sigs[:3], 'wall_s': round(time.time() - t, 1)}
    finally:
        if in_repo:
            sh('git -C /repo checkout -- .')
        else:
            sh(f'git -C /repo worktree remove --force {wt}')
            shutil.rmtree(wt, ignore_errors=True)
    print(json.dumps(out, indent=1))
    if '--record' in flags:
        meta = json.load(open(f'{d}/meta.json'))
        meta['demo'] = meta.get('demo', 'demo.py')
        meta['demo_exit_without_patch'] = out.get('demo_without_patch')
        meta['demo_exit_with_patch'] = out.get('demo_with_patch')
        meta.setdefault('check_runs', {})
        for c, r in out['results'].items():
            meta['check_runs'][f'{c}/{tier}' + ('/in-repo' if in_repo else '')] = {'exit': r['exit'], 'violation_lines': r['violations'], 'first': r['first'][:2], 'wall_s': r['wall_s'],
                                                     'cmd': f'git apply patch.diff; ./check {c} --tier {tier}; undo'}
        meta['detected_by'] = sorted({k.split('/')[0] for k, v in meta['check_runs'].items() if v['exit'] == 1})
        json.dump(meta, open(f'{d}/meta.json', 'w'), indent=1)

if __name__ == '__main__':
    main()
